#!/bin/sh
# Offline setup: nothing to build (stdlib-only harness, the repository is
# imported from its working tree).  Only sanity-checks the environment.
HERE="$(cd "$(dirname "$0")" && pwd)"
cd "$HERE" || exit 1
mkdir -p evidence replays
PYTHONPATH="$HERE:${EGVERIF_REPO:-/repo}" /venv/bin/python -B -c "
import egverif.common as c, edgegraph, dill, pyvis
c.assert_repo_under_test()
print('egverif setup ok: edgegraph from', edgegraph.__file__)
"
