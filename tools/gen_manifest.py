#!/usr/bin/env python3
"""Regenerates /verif/MANIFEST.json from the table below (kept by hand)."""

import json
import os
import subprocess

HERE = os.path.dirname(os.path.dirname(os.path.abspath(__file__)))

ALL = [f"C{n:02d}" for n in range(1, 21)]

# property -> (technique, level text, level note, design ref)
CHECKS = {
    "C04": (
        "decision-table oracle on observed link state, evaluated on every neighbors() call of an exhaustive one-/two-link enumeration plus random multigraphs; FORWARD/BACKWARD count corollary on real outputs",
        "Runtime monitor: every neighbors() call issued by the workload is compared (identity and order) with a 40-line decision table computed from the observed v.links/type/ends. All 8 link classes x 3 positions x 3 directions x 3 unknown modes x 7 filters are enumerated on one- and two-link graphs, then random mixed multigraphs. Held = no disagreement on the calls observed.",
        "Trusted: the decision table in egverif/oracles.py, CPython. Filters are pure; only complete two-ended links.",
        "DESIGN.md 4/C04",
    ),
    "C09": (
        "decision-table oracle + relational monitor len(find_links)==neighbors().count(b) on real outputs + post-unlink sweeps",
        "Runtime monitor over enumerated and random multigraphs: every find_links() result is compared as an identity set with the decision table, with the count of b in neighbors(a) under the corresponding settings, and after explicit.unlink(a,b) every setting in both argument orders must be empty while other pairs are unchanged.",
        "Trusted: decision table, CPython. Filters pure; only complete two-ended links.",
        "DESIGN.md 4/C09",
    ),
}

NOT_YET = "check not built yet (work in progress; see DESIGN.md section 4)"


def main():
    checks = []
    for pid in ALL:
        if pid not in CHECKS:
            continue
        tech, text, note, ref = CHECKS[pid]
        cat = "fault_enumeration" if pid == "C13" else "exploration"
        checks.append(
            {
                "property_id": pid,
                "quick_cmd": f"./check {pid} --tier quick",
                "thorough_cmd": f"./check {pid} --tier thorough",
                "evidence_file": f"/verif/evidence/{pid}.json",
                "replay_cmd_template": f"./check {pid} --replay {{path}}",
                "engine": "egverif",
                "level_claimed": {"category": cat, "text": text, "design_ref": ref},
                "level_note": note,
                "technique": "runtime monitoring: " + tech,
            }
        )
    try:
        fixes = subprocess.run(
            ["git", "-C", "/repo", "log", "--format=%h %s", "--grep=^fix:"],
            capture_output=True, text=True, check=True,
        ).stdout.strip().splitlines()
    except Exception:
        fixes = []
    man = {
        "version": 1,
        "setup_cmd": "./setup.sh",
        "hooks": {
            "guard": "EDGEGRAPH_VERIF",
            "enable": "none needed: no instrumentation was added to /repo; monitors observe through public accessors, return values, vars() and wrappers installed by the harness at run time (PYTHONPATH=/verif:/repo)",
            "baseline_off_cmd": "cd /repo && /venv/bin/python -m pytest -ra -q -p no:cacheprovider --timeout=900 --continue-on-collection-errors",
            "source_commits": [],
            "add_only": True,
        },
        "engines": [
            {
                "name": "egverif",
                "path": "/verif/egverif",
                "serves_properties": sorted(CHECKS),
                "kind_free_text": "stdlib-only runtime-monitoring harness: trace driver over the real API, invariant/snapshot observers, lock-step reference model, decision-table and reference-traversal oracles, twin execution, callback fault injection, parse-back oracles, sys.monitoring reach evidence",
            }
        ],
        "checks": checks,
        "notes": "All checks run the real library from /repo's working tree (nothing is built). Exit 0 held / 1 VIOLATION / 2 INCONCLUSIVE (coverage floor or watchdog). Repository repairs are unguarded 'fix:' commits: " + "; ".join(fixes),
        "not_applicable": [
            {"property_id": pid, "reason": NOT_YET} for pid in ALL if pid not in CHECKS
        ],
    }
    with open(os.path.join(HERE, "MANIFEST.json"), "w") as fp:
        json.dump(man, fp, indent=1)
        fp.write("\n")


if __name__ == "__main__":
    main()
