#!/usr/bin/env python3
"""Regenerates /verif/MANIFEST.json from the table below (kept by hand)."""

import json
import os
import subprocess

HERE = os.path.dirname(os.path.dirname(os.path.abspath(__file__)))

ALL = [f"C{n:02d}" for n in range(1, 21)]

# property -> (technique, level text, level note, design ref)
CHECKS = {
    "C10": (
        "canonical-form isomorphism oracle + query battery + detachment probe on every nrpickler round trip (6 protocols x 2 loaders x same/fresh interpreter x caching flags), deep graphs dumped under a lowered recursion limit",
        "Runtime monitor: object graphs (end states of random histories, spec families, run-time attributes incl. shared and cyclic containers, chains of 1000-10000 vertices) are dumped with nrpickler and loaded with pickle/dill in this and in a fresh interpreter; the canonical form (first-visit numbering: classes, uids, attributes, every ordered relation, sharing) and a fixed query battery must agree, no object may be shared with the original, and mutating the copy must not move the original.",
        "Trusted: egverif/canon.py; CPython 3.12 + dill 0.4.1; sizes up to 10^4 (dumps is quadratic).",
        "DESIGN.md 4/C10",
    ),
    "C13": (
        "callback fault injection at every invocation index of every callback of every read-only entry point, bracketed by deep before/after snapshots (accessors + vars() names + public attribute values) and a repeat-call oracle",
        "Fault enumeration: for each graph and each of 16 read-only entry points a counting run measures how often each callback is invoked; for every k the callback raises at its k-th invocation, after which the deep snapshot must equal the one before the call and a repeated call with the same, now well-behaved callable must give the fault-free answer (caching on and off).",
        "Trusted: snapshot code; attribute names containing 'cache' are ignored; callbacks are pure apart from the injected fault.",
        "DESIGN.md 4/C13",
    ),
    "C05": (
        "twin execution (differential oracle): the same recorded history run with caching forced off and run following its flag/pickle schedule, logs compared op by op; cache hits observed through the public statistics",
        "Runtime monitor: histories interleaving every mutator with neighbors/find_links/traversal/search/render queries, cache-flag toggles, same-process nrpickler reloads and fresh-interpreter continuations are executed twice on the real code; every query result (or exception type) of the scheduled run must equal the caching-off run. After each mutation all keys queried so far are re-queried so no stale entry stays unread; the run counts cache hits observed after mutations, per mutator kind.",
        "Trusted: driver canonicalisation to pool names; filters are importable pure functions.",
        "DESIGN.md 4/C05",
    ),
    "C11": (
        "postcondition oracle on the builders' result and on the untouched prior state (ordered per-vertex new links, member order, read-back through neighbors/find_links), error-path unchanged-snapshot monitor",
        "Runtime monitor: load_adj_dict / load_adj_matrix are called with generated inputs (self, repeated and empty entries, generator rows, exotic truthy/falsy cells, duplicate side entries, malformed matrices) on fresh pools and on pools with prior links/universes; member order, class/orientation/creation order of every new link, preservation of all prior structure, neighbors/find_links read-back and ValueError-with-nothing-touched are checked.",
        "Trusted: ~60-line expected-structure builder. Creation order is observed through ordered Vertex.links.",
        "DESIGN.md 4/C11",
    ),
    "C12": (
        "aliasing probes: every container returned by an accessor/query or passed to a constructor/builder is mutated, then the full snapshot and the repeated query are compared (caching off / cold / warm)",
        "Runtime monitor: on pools reached by random histories, each returned collection is attacked with one of 12 list / 5 set / 6 mapping mutations and each input container is mutated after the call; the observable graph and the answer of the same query afterwards must be unchanged. Immutable containers count as protected.",
        "Trusted: snapshot via public accessors. Only the exchanged container itself is attacked.",
        "DESIGN.md 4/C12",
    ),
    "C01": (
        "model-free invariant hook evaluated at every client-call boundary of generated call histories (bounded-exhaustive prelude + random), over everything reachable from the object pool",
        "Runtime monitor: after every op of every history (return or raise) the relation l in v.links <=> v in l.vertices and the no-duplicate rule are evaluated through the public accessors on all reachable objects. Histories: every op x every argument aliasing from 9 base states to depth 2/3, plus thousands of random 40-120-op histories on 3-5 vertices.",
        "Trusted: 30-line invariant function; identity semantics of vertices. Only client-call boundaries are quiescent points.",
        "DESIGN.md 4/C01",
    ),
    "C02": (
        "model-free symmetry/duplicate invariants + lock-step membership-order model + raise-and-unchanged monitor for non-member removals, after every op of generated histories",
        "Runtime monitor over histories of the four membership calls and both constructors (duplicates, nested and self-membership): symmetry and duplicate-freedom on everything reachable, member/universes order against the lock-step model, non-member removal must raise with the whole snapshot unchanged.",
        "Trusted: invariant functions and the membership part of egverif/model.py.",
        "DESIGN.md 4/C02",
    ),
    "C03": (
        "lock-step executable reference model: full observable snapshot and return value compared after every op of generated histories",
        "Runtime monitor: the real library and a ~300-line plain-data model replay the same histories; after each op the complete snapshot (ordered links/universes/ends/members, laws bindings) and the return value must agree, raising ops must leave the snapshot unchanged. Ops with documented-open effects are never issued.",
        "Trusted: egverif/model.py (written from the statement/docstrings); snapshot via public accessors only.",
        "DESIGN.md 4/C03",
    ),
    "C19": (
        "model-free bijection invariant + must-succeed/must-take-effect monitor + lock-step frame model after every assignment; read-back/immutability probes of the rule attributes",
        "Runtime monitor over histories of laws/applies_to assignments (either side, None, law sets in use elsewhere) and universe constructions: u.laws is L <=> L.applies_to is u on everything reachable after every op; every assignment must succeed and take effect; only previous partners are detached. Rule attributes: read-back, AttributeError on assignment, proxy immutability, isolation from the input dict.",
        "Trusted: invariant function, laws part of the model. Law sets are constructed without applies_to.",
        "DESIGN.md 4/C19",
    ),
    "C04": (
        "decision-table oracle on observed link state, evaluated on every neighbors() call of an exhaustive one-/two-link enumeration plus random multigraphs; FORWARD/BACKWARD count corollary on real outputs",
        "Runtime monitor: every neighbors() call issued by the workload is compared (identity and order) with a 40-line decision table computed from the observed v.links/type/ends. All 8 link classes x 3 positions x 3 directions x 3 unknown modes x 7 filters are enumerated on one- and two-link graphs, then random mixed multigraphs. Held = no disagreement on the calls observed.",
        "Trusted: the decision table in egverif/oracles.py, CPython. Filters are pure; only complete two-ended links.",
        "DESIGN.md 4/C04",
    ),
    "C09": (
        "decision-table oracle + relational monitor len(find_links)==neighbors().count(b) on real outputs + post-unlink sweeps",
        "Runtime monitor over enumerated and random multigraphs: every find_links() result is compared as an identity set with the decision table, with the count of b in neighbors(a) under the corresponding settings, and after explicit.unlink(a,b) every setting in both argument orders must be empty while other pairs are unchanged.",
        "Trusted: decision table, CPython. Filters pure; only complete two-ended links.",
        "DESIGN.md 4/C09",
    ),
    "C06": (
        "reachability oracle (independent closure over the real neighbors()) evaluated on bft/dft_recursive/dft_iterative and generator forms, under a logical expansion bound",
        "Runtime monitor: for every generated (graph, universe, start, direction, unknown mode, ff_via, ff_result) the three real traversals and their generator forms run under an expansion bound and are compared with an independent closure: no repeats, start first, exactly the reachable in-universe set, agreement as sets, generator==list, ff_result only removes. All digraphs on 3 (4) vertices exhaustively plus families and random mixed multigraphs.",
        "Trusted: closure oracle in egverif/oracles.py; 'followed' is defined by the real neighbors() (pinned by C04). start in universe or universe None; filters pure.",
        "DESIGN.md 4/C06",
    ),
    "C07": (
        "reference-traversal oracles (level-synchronous BFS, explicit-iterator pre-order DFS, reversed-neighbour pre-order = explicit stack) compared element-wise with the real outputs; repeat and rebuild determinism monitors",
        "Runtime monitor: the ordered output of each real traversal is compared element by element with an independently written reference on every generated case; hop distances along bft output are asserted non-decreasing; each call is repeated and the graph rebuilt. The run counts graphs on which all three orders differ so that order is really discriminated.",
        "Trusted: reference traversals in egverif/oracles.py. Neighbour order is taken from the real neighbors().",
        "DESIGN.md 4/C07",
    ),
    "C08": (
        "definitional oracle: first vertex of the corresponding real traversal with hasattr and ==, compared by identity with the search result",
        "Runtime monitor: bfs/dfs_recursive/dfs_iterative results are compared (identity) with the first match in bft/dft_recursive/dft_iterative order on graphs with duplicate values, equal-but-not-identical sought values, absent values, missing attributes and falsy vertex classes.",
        "Trusted: the real traversal order (pinned by C07); == on attribute values is total and pure.",
        "DESIGN.md 4/C08",
    ),
    "C14": (
        "parse-back oracle: declaration headers and relation lines of the produced PlantUML text compared as multisets with the graph and option table",
        "Runtime monitor: render_to_plantuml_src output is parsed (headers, relation lines) for 5 option tables x families/random multigraphs and compared with what the observed graph implies: one declaration per member with nearest-configured-class options, exactly one v1-to-v2 relation line per internal link with the configured arrow ends, no line for a non-existent link, None for an empty universe.",
        "Trusted: the two regexes and the MRO lookup in egverif/props/c14.py. Titles unique and whitespace-free; links leaving the universe may be drawn or not.",
        "DESIGN.md 4/C14",
    ),
    "C15": (
        "read-back oracle on the returned pyvis Network (get_nodes/get_node/get_edges) against the observed graph",
        "Runtime monitor: node ids/labels, arrowed-edge counts per ordered member pair, arrow-less edges backed by a non-directed link, and 'every internal link leaves its node pair joined' are checked on every generated universe (self-loops, parallel/mixed edges, links leaving the universe).",
        "Trusted: pyvis 0.3.2 accessors; only complete two-ended links.",
        "DESIGN.md 4/C15",
    ),
    "C16": (
        "parse-back oracle: each output line rebuilt from rfunc/repr and the real neighbors() and compared exactly",
        "Runtime monitor: basic_render output is split into lines and compared line by line (member order or sort-key order, neighbour renderings joined by ', ') for 3 rfuncs x 5 sort keys on families and random multigraphs incl. isolated members and neighbours outside the universe.",
        "Trusted: 10-line expected-line builder; graphs hold only directed/undirected edges.",
        "DESIGN.md 4/C16",
    ),
    "C20": (
        "postcondition monitor on every randgraph() result over a full parameter grid x seeds plus scripted hostile RNG streams; seed-replay reproducibility monitor",
        "Runtime monitor: every call of the grid (count 1..12/60 x 4 classes x 7 connectivities x ensurelink x seeds, plus always-min/always-max/alternating scripted random.randint/sample) must return a universe with exactly count vertices i=0..count-1, only links of the requested class with both ends inside, every vertex a v1 when ensurelink, and identical adjacency when re-seeded.",
        "Trusted: the postcondition code. count>=1, connectivity in [0,1] or default.",
        "DESIGN.md 4/C20",
    ),
    "C17": (
        "lock-step reference model {class -> {key -> instance}} replayed against the real metaclass machinery; identity/type/__init__-count/reporting monitors after every call",
        "Runtime monitor: thousands of histories over 8 classes in 5 arrangements with a hostile argument set are executed on the real code and a model in lock step; every construction is judged on identity, type and __init__ count, every check/get_all on exact agreement with the model, and after every call every other class's live set is re-read (isolation).",
        "Trusted: the ~40-line model; documented default key (args, json.dumps(kwargs, sort_keys=True)) compared with ==.",
        "DESIGN.md 4/C17",
    ),
    "C18": (
        "lock-step reference model {class -> instance} with per-class __init__ log; every live class re-observed after every call",
        "Runtime monitor: histories of constructions and targeted/global clears over flat classes, a 3-level subclass chain, a derived metaclass and a Vertex subclass; each call is judged on identity, type, __init__ count and arguments, and after each call every class the model holds live is constructed again and must return its instance without running __init__.",
        "Trusted: the ~20-line model. No re-entrant construction; single-threaded.",
        "DESIGN.md 4/C18",
    ),
}

NOT_YET = "not claimed"


def main():
    checks = []
    for pid in ALL:
        if pid not in CHECKS:
            continue
        tech, text, note, ref = CHECKS[pid]
        cat = "fault_enumeration" if pid == "C13" else "exploration"
        checks.append(
            {
                "property_id": pid,
                "quick_cmd": f"./check {pid} --tier quick",
                "thorough_cmd": f"./check {pid} --tier thorough",
                "evidence_file": f"/verif/evidence/{pid}.json",
                "replay_cmd_template": f"./check {pid} --replay {{path}}",
                "engine": "egverif",
                "level_claimed": {"category": cat, "text": text, "design_ref": ref},
                "level_note": note,
                "technique": "runtime monitoring: " + tech,
            }
        )
    try:
        fixes = subprocess.run(
            ["git", "-C", "/repo", "log", "--format=%h %s", "--grep=^fix:"],
            capture_output=True, text=True, check=True,
        ).stdout.strip().splitlines()
    except Exception:
        fixes = []
    man = {
        "version": 1,
        "setup_cmd": "./setup.sh",
        "hooks": {
            "guard": "EDGEGRAPH_VERIF",
            "enable": "none needed: no instrumentation was added to /repo; monitors observe through public accessors, return values, vars() and wrappers installed by the harness at run time (PYTHONPATH=/verif:/repo)",
            "baseline_off_cmd": "cd /repo && /venv/bin/python -m pytest -ra -q -p no:cacheprovider --timeout=900 --continue-on-collection-errors",
            "source_commits": [],
            "add_only": True,
        },
        "engines": [
            {
                "name": "egverif",
                "path": "/verif/egverif",
                "serves_properties": sorted(CHECKS),
                "kind_free_text": "stdlib-only runtime-monitoring harness: trace driver over the real API, invariant/snapshot observers, lock-step reference model, decision-table and reference-traversal oracles, twin execution, callback fault injection, parse-back oracles, sys.monitoring reach evidence",
            }
        ],
        "checks": checks,
        "notes": "All checks run the real library from /repo's working tree (nothing is built). Exit 0 held / 1 VIOLATION / 2 INCONCLUSIVE (coverage floor or watchdog). Repository repairs are unguarded 'fix:' commits: " + "; ".join(fixes),
        "not_applicable": [
            {"property_id": pid, "reason": NOT_YET} for pid in ALL if pid not in CHECKS
        ],
    }
    with open(os.path.join(HERE, "MANIFEST.json"), "w") as fp:
        json.dump(man, fp, indent=1)
        fp.write("\n")


if __name__ == "__main__":
    main()
