#!/usr/bin/env python3
"""usage: add_finding.py PROP MECHANISM open|fixed COMMIT|- 'what fails'   (hand tool; never run by a check)"""
import json, sys, os
p = os.path.join(os.path.dirname(os.path.dirname(os.path.abspath(__file__))), "known_findings.json")
d = json.load(open(p))
prop, mech, status, commit, what = sys.argv[1:6]
prefix = f"fixed: property={prop} {commit} " if status == "fixed" else ""
d["findings"] = [f for f in d["findings"] if not (f["property"] == prop and f["mechanism"] == mech)]
d["findings"].append({"property": prop, "mechanism": mech, "status": status,
                      "commit": None if commit == "-" else commit, "what_fails": prefix + what})
json.dump(d, open(p, "w"), indent=1)
open(p, "a").write("\n")
