#!/usr/bin/env python3
"""
Confirm a seeded change and run the checks against it, on a scratch copy of /repo
(never /repo itself):

  seedcheck.py <dir with patch.diff + demo.py> --props C01,C03 [--tier quick] [--all] [--no-tests]

1. the repository's own tests still pass with the change,
2. the demonstration fails with the change and passes without it,
3. the named checks (or --all twenty) are run with EGVERIF_REPO=<scratch>.
Prints a JSON summary.
"""

from __future__ import annotations

import argparse
import concurrent.futures
import json
import os
import shutil
import subprocess
import sys
import tempfile

VERIF = os.path.dirname(os.path.dirname(os.path.abspath(__file__)))
ALL = [f"C{n:02d}" for n in range(1, 21)]


def main():
    ap = argparse.ArgumentParser()
    ap.add_argument("dir")
    ap.add_argument("--props", default="")
    ap.add_argument("--tier", default="quick")
    ap.add_argument("--all", action="store_true")
    ap.add_argument("--no-tests", action="store_true")
    ap.add_argument("--demo", default=None)
    args = ap.parse_args()
    d = os.path.abspath(args.dir)
    patch = os.path.join(d, "patch.diff")
    demo = args.demo or next((os.path.join(d, f) for f in ("demo.py", "demo_test.py", "test_demo.py") if os.path.exists(os.path.join(d, f))), None)
    scratch = tempfile.mkdtemp(prefix="egv_seed_", dir="/tmp")
    repo = os.path.join(scratch, "repo")
    out = {"dir": d}
    try:
        shutil.copytree("/repo", repo, ignore=shutil.ignore_patterns(".git", "__pycache__", "*.egg-info", "docs"))
        r = subprocess.run(["patch", "-p1", "-i", patch], cwd=repo, capture_output=True, text=True)
        out["patch_applies"] = r.returncode == 0
        if r.returncode != 0:
            out["patch_error"] = r.stdout[-500:] + r.stderr[-500:]
            print(json.dumps(out, indent=1))
            return 1
        if not args.no_tests:
            t = subprocess.run(["/venv/bin/python", "-m", "pytest", "-q", "-p", "no:cacheprovider", "--timeout=900"],
                               cwd=repo, capture_output=True, text=True, env=dict(os.environ, PYTHONPATH=repo))
            out["repo_tests_pass_with_change"] = t.returncode == 0
            out["repo_tests_tail"] = t.stdout.strip().splitlines()[-1:] if t.stdout else []
        if demo:
            runner = ["/venv/bin/python", "-B", demo] if not os.path.basename(demo).startswith("test_") and "_test" not in demo else [
                "/venv/bin/python", "-m", "pytest", "-q", "-p", "no:cacheprovider", demo]
            clean = os.path.join(scratch, "clean")
            shutil.copytree("/repo", clean, ignore=shutil.ignore_patterns(".git", "__pycache__", "*.egg-info", "docs"))
            res = []
            for root in (repo, clean):
                dst = os.path.join(root, os.path.basename(demo))
                shutil.copy(demo, dst)
                # demos written inside a worktree often hard-code its path
                txt = open(dst).read().replace(d, root)
                open(dst, "w").write(txt)
                rn = [x if x != demo else dst for x in runner]
                res.append(subprocess.run(rn, cwd=root, capture_output=True, text=True, env=dict(os.environ, PYTHONPATH=root), timeout=600))
                os.unlink(dst)
            w, wo = res
            out["demo_fails_with_change"] = w.returncode != 0
            out["demo_passes_without_change"] = wo.returncode == 0
        props = ALL if args.all else [p for p in args.props.split(",") if p]
        env = dict(os.environ, EGVERIF_REPO=repo, EGVERIF_NO_EVIDENCE="1")

        def one(p):
            r = subprocess.run([os.path.join(VERIF, "check"), p, "--tier", args.tier], env=env, capture_output=True, text=True,
                               timeout=3600)
            mech = [l.strip() for l in r.stdout.splitlines() if l.strip().startswith("mechanism=")]
            return p, {"exit": r.returncode, "mechanisms": mech[:4], "tail": r.stdout.strip().splitlines()[-1:] }

        with concurrent.futures.ThreadPoolExecutor(6) as ex:
            out["checks"] = dict(ex.map(one, props))
        out["caught_by"] = [p for p, v in out["checks"].items() if v["exit"] == 1]
        print(json.dumps(out, indent=1))
    finally:
        shutil.rmtree(scratch, ignore_errors=True)
    return 0


if __name__ == "__main__":
    sys.exit(main())
