#!/usr/bin/env python3
"""
reseed_all.py [--jobs N] [--only s05] : re-runs the claimed check(s) against every stored seeded change
(tools/seedcheck.py --no-tests, scratch copies) and prints which are caught now.  Seeds whose patch no longer
applies to the current /repo HEAD are reported as 'stale' (their meta.json records the base commit they apply to).
"""
import concurrent.futures
import json
import os
import subprocess
import sys

VERIF = os.path.dirname(os.path.dirname(os.path.abspath(__file__)))
jobs = int(sys.argv[sys.argv.index("--jobs") + 1]) if "--jobs" in sys.argv else 6
only = sys.argv[sys.argv.index("--only") + 1] if "--only" in sys.argv else ""


def one(sid):
    d = os.path.join(VERIF, "seeded", sid)
    meta = json.load(open(os.path.join(d, "meta.json")))
    if meta.get("obsolete_since"):
        return sid, "OBSOLETE", "no longer a behaviour change on the current tree (see meta.json)"
    props = ",".join(dict.fromkeys([meta["breaks_property"]] + list(meta.get("caught_by") or [])))
    r = subprocess.run([sys.executable, os.path.join(VERIF, "tools", "seedcheck.py"), d, "--props", props, "--no-tests"],
                       capture_output=True, text=True)
    try:
        res = json.loads(r.stdout)
    except Exception:  # noqa: BLE001
        return sid, "stale/err", (r.stdout + r.stderr)[-200:].replace("\n", " ")
    if res.get("patch_applies") is False:
        return sid, "STALE", "patch.diff does not apply to the current /repo tree"
    caught = [p for p, v in res.get("checks", {}).items() if v["exit"] == 1]
    odd = [f"{p}:rc{v['exit']}" for p, v in res.get("checks", {}).items() if v["exit"] not in (0, 1)]
    return sid, "caught" if caught else "MISSED", ",".join(caught + odd)


sids = sorted(s for s in os.listdir(os.path.join(VERIF, "seeded")) if os.path.isdir(os.path.join(VERIF, "seeded", s)) and s.startswith(only))
with concurrent.futures.ThreadPoolExecutor(jobs) as ex:
    for sid, status, extra in ex.map(one, sids):
        print(sid, status, extra, flush=True)
