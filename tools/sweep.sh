#!/bin/sh
# usage: tools/sweep.sh <tier> "<seeds>" [jobs]   -- runs every check for every seed, prints one line per run
TIER="$1"; SEEDS="$2"; JOBS="${3:-4}"
HERE="$(cd "$(dirname "$0")/.." && pwd)"
cd "$HERE" || exit 2
export EGVERIF_NO_EVIDENCE=1
for s in $SEEDS; do
  for n in 01 02 03 04 05 06 07 08 09 10 11 12 13 14 15 16 17 18 19 20; do
    echo "C$n $s"
  done
done | xargs -P "$JOBS" -L 1 sh -c '
  out=$(PYTHONHASHSEED=0 ./check "$0" --tier '"$TIER"' --seed "$1" 2>&1); rc=$?
  last=$(printf "%s\n" "$out" | tail -1)
  echo "rc=$rc $0 seed=$1 :: $last"
  if [ $rc -ne 0 ]; then printf "%s\n" "$out" | head -40; fi
'
