#!/usr/bin/env python3
"""
keep_seed.py <src dir> <seed id> <property> [--props C01,C03] [--tier quick]
Confirms the seeded change (tools/seedcheck.py) and, if confirmed, stores it as
/verif/seeded/<seed id>/{patch.diff, demo.py, NOTES.md, meta.json}.
"""
import json, os, shutil, subprocess, sys

VERIF = os.path.dirname(os.path.dirname(os.path.abspath(__file__)))
src, sid, prop = sys.argv[1:4]
extra = sys.argv[4:]
props = prop
if "--props" in extra:
    props = extra[extra.index("--props") + 1]
tier = extra[extra.index("--tier") + 1] if "--tier" in extra else "quick"
r = subprocess.run([sys.executable, os.path.join(VERIF, "tools", "seedcheck.py"), src, "--props", props, "--tier", tier],
                   capture_output=True, text=True)
res = json.loads(r.stdout)
ok = res.get("repo_tests_pass_with_change") and res.get("demo_fails_with_change") and res.get("demo_passes_without_change")
print(json.dumps({k: v for k, v in res.items() if k != "checks"}, indent=1))
for p, v in res.get("checks", {}).items():
    print(p, v["exit"], v["mechanisms"][:2])
if not ok:
    print("NOT CONFIRMED - not stored")
    sys.exit(1)
dst = os.path.join(VERIF, "seeded", sid)
os.makedirs(dst, exist_ok=True)
for f in ("patch.diff", "demo.py", "NOTES.md"):
    if os.path.exists(os.path.join(src, f)):
        shutil.copy(os.path.join(src, f), os.path.join(dst, f))
notes = open(os.path.join(src, "NOTES.md")).read() if os.path.exists(os.path.join(src, "NOTES.md")) else ""
meta = {
    "id": sid,
    "breaks_property": prop,
    "origin": "independent sub-agent given only the property text and a scratch worktree",
    "needs_to_manifest": notes.strip()[:1500],
    "confirmed": {
        "repo_tests_pass_with_change": res["repo_tests_pass_with_change"],
        "repo_tests_tail": res.get("repo_tests_tail"),
        "demo_fails_with_change": res["demo_fails_with_change"],
        "demo_passes_without_change": res["demo_passes_without_change"],
        "how": "tools/seedcheck.py: patch applied to a scratch copy of /repo (patch -p1), repository tests run there with "
               "PYTHONPATH=<scratch>, demo.py run against the patched and against a clean copy",
    },
    "checks_run": {p: {"tier": tier, "exit": v["exit"], "mechanisms": v["mechanisms"][:3]} for p, v in res["checks"].items()},
    "caught_by": res["caught_by"],
}
json.dump(meta, open(os.path.join(dst, "meta.json"), "w"), indent=1)
print("stored", dst, "caught_by", res["caught_by"])
