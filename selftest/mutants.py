#!/usr/bin/env python3
"""
Sensitivity self-test: apply one deliberate property-breaking edit to a scratch
copy of /repo, run the affected check(s) against it (EGVERIF_REPO), expect a
VIOLATION (exit 1), optionally confirm that the repository's own tests still
pass on the mutant, then delete the scratch copy.

usage: mutants.py [--tests] [--only ID[,ID]] [--prop CXX] [--tier quick] [--jobs N]
"""

from __future__ import annotations

import argparse
import concurrent.futures
import json
import os
import shutil
import subprocess
import sys
import tempfile

HERE = os.path.dirname(os.path.abspath(__file__))
VERIF = os.path.dirname(HERE)
sys.path.insert(0, HERE)
from mutant_list import MUTANTS  # noqa: E402


def run_one(m, tier, with_tests):
    scratch = tempfile.mkdtemp(prefix=f"egv_mut_{m['id']}_", dir="/tmp")
    repo = os.path.join(scratch, "repo")
    try:
        subprocess.run(["git", "-C", "/repo", "worktree", "prune"], capture_output=True)
        shutil.copytree("/repo", repo, ignore=shutil.ignore_patterns(".git", "__pycache__", "*.egg-info", "docs"))
        for ed in m["edits"]:
            f, old, new = ed[:3]
            k = ed[3] if len(ed) > 3 else None
            p = os.path.join(repo, f)
            s = open(p).read()
            n = s.count(old)
            if (k is None and n != 1) or (k is not None and n <= k):
                return dict(id=m["id"], status="STALE", detail=f"{f}: pattern occurs {n}x (want index {k})")
            parts = s.split(old)
            k = k or 0
            s = old.join(parts[: k + 1]) + new + old.join(parts[k + 1 :])
            open(p, "w").write(s)
        c = subprocess.run(["/venv/bin/python", "-m", "compileall", "-q", os.path.join(repo, "edgegraph")],
                           capture_output=True, text=True)
        if c.returncode != 0:
            return dict(id=m["id"], status="STALE", detail="does not compile: " + c.stdout[-300:])
        res = {}
        env = dict(os.environ, EGVERIF_REPO=repo, EGVERIF_NO_EVIDENCE="1")
        for prop in m["props"]:
            r = subprocess.run([os.path.join(VERIF, "check"), prop, "--tier", tier],
                               env=env, capture_output=True, text=True, timeout=1800)
            mech = [l.strip() for l in r.stdout.splitlines() if l.strip().startswith("mechanism=")]
            res[prop] = (r.returncode, mech[:3], r.stdout[-300:] if r.returncode not in (0, 1) else "")
        tests = None
        if with_tests:
            t = subprocess.run(["/venv/bin/python", "-m", "pytest", "-q", "-p", "no:cacheprovider", "-x",
                                "--timeout=900"], cwd=repo, capture_output=True, text=True,
                               env=dict(os.environ, PYTHONPATH=repo))
            tests = t.returncode == 0
        caught = all(v[0] == 1 for v in res.values())
        return dict(id=m["id"], status="CAUGHT" if caught else "MISSED", results=res, tests_pass=tests)
    finally:
        shutil.rmtree(scratch, ignore_errors=True)


def main():
    ap = argparse.ArgumentParser()
    ap.add_argument("--tests", action="store_true")
    ap.add_argument("--only", default=None)
    ap.add_argument("--prop", default=None)
    ap.add_argument("--tier", default="quick")
    ap.add_argument("--jobs", type=int, default=8)
    args = ap.parse_args()
    ms = MUTANTS
    if args.only:
        want = set(args.only.split(","))
        ms = [m for m in ms if m["id"] in want]
    if args.prop:
        ms = [m for m in ms if args.prop in m["props"]]
    bad = 0
    with concurrent.futures.ThreadPoolExecutor(args.jobs) as ex:
        for r in ex.map(lambda m: run_one(m, args.tier, args.tests), ms):
            print(json.dumps(r))
            sys.stdout.flush()
            if r["status"] != "CAUGHT" or r.get("tests_pass") is False:
                bad += 1
    print(f"{len(ms) - bad}/{len(ms)} mutants caught" + (" (and test-surviving)" if args.tests else ""))
    return 1 if bad else 0


if __name__ == "__main__":
    sys.exit(main())
