"""
Deliberate property-breaking edits (textual), used by mutants.py.
Each mutant: id, props (checks expected to fire), edits.
edit = (file, old, new) -- `old` must be unique in the file -- or
       (file, old, new, k) -- replace only the k-th (0-based) occurrence.
"""

H = "edgegraph/traversal/helpers.py"
BF = "edgegraph/traversal/breadthfirst.py"
DF = "edgegraph/traversal/depthfirst.py"

MUTANTS = [
    # ---------------- C04 / C09 ------------------------------------------
    dict(id="c04_type_is", props=["C04"], edits=[
        (H, "elif issubclass(type(link), DirectedEdge) and (link.v2 is vert):",
            "elif type(link) is DirectedEdge and (link.v2 is vert):", 1)]),
    dict(id="c04_undirected_exact_type", props=["C04"], edits=[
        (H, "if issubclass(type(link), UnDirectedEdge):", "if type(link) is UnDirectedEdge:", 1)]),
    dict(id="c04_selfloop_twice_any", props=["C04"], edits=[
        (H, "            if filterfunc is None or filterfunc(link, v2):\n                nbs.append(v2)\n\n        else:",
            "            if filterfunc is None or filterfunc(link, v2):\n                nbs.append(v2)\n                if link.v1 is link.v2:\n                    nbs.append(v2)\n\n        else:")]),
    dict(id="c04_backward_filter_skipped", props=["C04"], edits=[
        (H, "                if filterfunc is None or filterfunc(link, v2):", "                if True:", 3)]),
    dict(id="c04_revert_fix_d5", props=["C04"], edits=[
        (H, "                    if filterfunc is None or filterfunc(link, v2):\n                        nbs.append(v2)",
            "                    nbs.append(v2)", 0)]),
    dict(id="c09_revert_fix_d5", props=["C09"], edits=[
        (H, "                    if filterfunc is None or filterfunc(link):\n                        links.add(link)",
            "                    links.add(link)")]),
    dict(id="c09_directed_either_way", props=["C09"], edits=[
        (H, "                if link.v1 is not v1:\n", "                if link.v1 is not v1 and link.v2 is not v1:\n")]),
    dict(id="c09_selfloop_skipped", props=["C09"], edits=[
        (H, "        if link.other(v1) is not v2:\n", "        if link.other(v1) is not v2 or link.v1 is link.v2:\n")]),
    dict(id="c09_insens_skips_filter", props=["C09"], edits=[
        (H, "            if filterfunc is None or filterfunc(link):\n                links.add(link)\n\n    return links",
            "            links.add(link)\n\n    return links")]),
    # ---------------- C06 / C07 ------------------------------------------
    dict(id="c06_bft_no_universe_test", props=["C06"], edits=[
        (BF, "            if (uni is not None) and (v not in uni.vertices):\n                continue\n\n            # make sure",
             "            # make sure")]),
    dict(id="c06_dftr_universe_only_at_top", props=["C06"], edits=[
        (DF, "        if (uni is not None) and (w not in uni.vertices):\n            continue\n        if w not in visited:\n            yield from",
             "        if (uni is not None) and (w not in uni.vertices) and (len(visited) < 2):\n            continue\n        if w not in visited:\n            yield from")]),
    dict(id="c06_dfti_unknown_dropped", props=["C06"], edits=[
        (DF, "                unknown_handling=unknown_handling,\n                filterfunc=ff_via,\n            ):\n                stack.append(w)",
             "                unknown_handling=helpers.LNK_UNKNOWN_NEIGHBOR if unknown_handling == helpers.LNK_UNKNOWN_ERROR else unknown_handling,\n                filterfunc=ff_via,\n            ):\n                stack.append(w)")]),
    dict(id="c06_bft_ffresult_prunes", props=["C06"], edits=[
        (BF, "                visited.add(v)\n                queue.append(v)\n\n                if (ff_result and ff_result(v)) or (not ff_result):\n                    yield v",
             "                visited.add(v)\n\n                if (ff_result and ff_result(v)) or (not ff_result):\n                    queue.append(v)\n                    yield v")]),
    dict(id="c07_bft_lifo", props=["C07"], edits=[
        (BF, "        u = queue.popleft()\n        for v in helpers.neighbors(\n", "        u = queue.pop()\n        for v in helpers.neighbors(\n")]),
    dict(id="c07_dfti_reversed_push", props=["C07"], edits=[
        (DF, "            ):\n                stack.append(w)", "            )[::-1]:\n                stack.append(w)")]),
    dict(id="c07_dfti_mark_on_push", props=["C07"], edits=[
        (DF, "            ):\n                stack.append(w)", "            ):\n                if w not in stack:\n                    stack.append(w)")]),
    dict(id="c07_dftr_sorted_by_uid", props=["C07"], edits=[
        (DF, "    for w in helpers.neighbors(\n        v,\n        direction_sensitive=direction_sensitive,",
             "    for w in sorted(helpers.neighbors(\n        v,\n        direction_sensitive=direction_sensitive,", 0),
        (DF, "        filterfunc=ff_via,\n    ):\n", "        filterfunc=ff_via,\n    ), key=id):\n", 0)]),
]

MUTANTS += [
    # ---------------- C08 -------------------------------------------------
    dict(id="c08_revert_fix_d10", props=["C08"], edits=[
        (DF, "            if ret is not None:\n", "            if ret:\n")]),
    dict(id="c08_bfs_is_for_eq", props=["C08"], edits=[
        (BF, "                if v[attrib] == val:\n", "                if v[attrib] is val:\n")]),
    dict(id="c08_dfsi_skip_start", props=["C08"], edits=[
        (DF, "    stack = [start]\n    discovered = []\n    while len(stack) != 0:\n        v = stack.pop()\n        if (uni is not None) and (v not in uni.vertices):\n            continue\n        if v not in discovered:\n            if hasattr(v, attrib):",
             "    stack = [start]\n    discovered = []\n    while len(stack) != 0:\n        v = stack.pop()\n        if (uni is not None) and (v not in uni.vertices):\n            continue\n        if v not in discovered:\n            if hasattr(v, attrib) and v is not start:")]),
    dict(id="c08_bfs_match_before_universe", props=["C08"], edits=[
        (BF, "            if (uni is not None) and (v not in uni.vertices):\n                continue\n\n            # check for a match first",
             "            # check for a match first"),
        (BF, "            # make sure we don't re-visit as a duplicate\n            if v not in visited:\n                visited.add(v)\n                queue.append(v)\n\n    return None",
             "            if (uni is not None) and (v not in uni.vertices):\n                continue\n            if v not in visited:\n                visited.add(v)\n                queue.append(v)\n\n    return None")]),
    dict(id="c08_dfsr_match_only_unvisited_order", props=["C08"], edits=[
        (DF, "        if w not in visited:\n            # check for a match first -- then we can exit early\n            if hasattr(w, attrib):\n                if w[attrib] == val:\n                    return w\n            ret = _dfs_recur",
             "        if w not in visited:\n            ret = _dfs_recur(uni, w, visited, attrib, val)\n            if ret is not None:\n                return ret\n            if hasattr(w, attrib):\n                if w[attrib] == val:\n                    return w\n            ret = _dfs_recur")]),
]

RG = "edgegraph/builder/randgraph.py"
AL = "edgegraph/builder/adjlist.py"
MUTANTS += [
    # ---------------- C20 -------------------------------------------------
    dict(id="c20_revert_fix_d21", props=["C20"], edits=[(RG, "        k = min(k, count)\n", "")]),
    dict(id="c20_off_by_one_verts", props=["C20"], edits=[
        (RG, "    for i in range(count):\n\n", "    for i in range(max(1, count - 1) if connectivity == 0 else count):\n\n")]),
    dict(id="c20_ensurelink_only_when_connected", props=["C20"], edits=[
        (RG, "        if ensurelink:\n", "        if ensurelink and (connectivity > 1e-6 or i % 7):\n")]),
    dict(id="c20_edge_type_ignored_for_late_vertices", props=["C20"], edits=[
        (AL, "            explicit.link_from_to(v1, linktype, v2)\n",
             "            explicit.link_from_to(v1, linktype if len(uni.vertices) < 9 else UnDirectedEdge, v2)\n")]),
    dict(id="c20_unseeded_source", props=["C20"], edits=[
        (RG, "        adj[verts[i]] = random.sample(verts, k)\n",
             "        adj[verts[i]] = random.SystemRandom().sample(verts, k)\n")]),
]

PT = "edgegraph/output/plaintext.py"
MUTANTS += [
    # ---------------- C16 -------------------------------------------------
    dict(id="c16_revert_fix_d16", props=["C16"], edits=[(PT, "        if nbs:\n            line = line[:-2]\n", "        line = line[:-2]\n")]),
    dict(id="c16_dedup_neighbours", props=["C16"], edits=[
        (PT, "            nbs = helpers.neighbors(vert)\n", "            nbs = list(dict.fromkeys(helpers.neighbors(vert)))\n")]),
    dict(id="c16_sort_only_vertices", props=["C16"], edits=[
        (PT, "            nbs = sorted(helpers.neighbors(vert), key=sort)\n", "            nbs = helpers.neighbors(vert)\n")]),
    dict(id="c16_neighbours_limited_to_universe", props=["C16"], edits=[
        (PT, "            nbs = helpers.neighbors(vert)\n", "            nbs = [n for n in helpers.neighbors(vert) if n in verts]\n")]),
    dict(id="c16_rfunc_not_used_for_neighbours_when_sorting", props=["C16"], edits=[
        (PT, "            if rfunc:\n                node = rfunc(end)\n", "            if rfunc and not (sort and end is vert):\n                node = rfunc(end)\n")]),
]

PU = "edgegraph/output/plantuml.py"
MUTANTS += [
    # ---------------- C14 -------------------------------------------------
    dict(id="c14_swap_titles", props=["C14"], edits=[
        (PU, '    out = f"{v1puml} {v1e}--{v2e} {v2puml}\\n"', '    out = f"{v2puml} {v1e}--{v2e} {v1puml}\\n"')]),
    dict(id="c14_swap_arrow_ends_for_subclasses", props=["C14"], edits=[
        (PU, '    v1e = opts["v1side"]\n    v2e = opts["v2side"]\n',
             '    v1e = opts["v1side"]\n    v2e = opts["v2side"]\n    if type(lnk) not in options:\n        v1e, v2e = v2e, v1e\n')]),
    dict(id="c14_links_list_not_set", props=["C14"], edits=[
        (PU, "    links = set()\n", "    links = []\n"),
        (PU, "        links |= set(vert.links)\n", "        links += list(vert.links)\n")]),
    dict(id="c14_selfloops_dropped", props=["C14"], edits=[
        (PU, "    for link in links:\n        components.append(_one_link_to_puml(link, options))",
             "    for link in links:\n        if link.v1 is link.v2:\n            continue\n        components.append(_one_link_to_puml(link, options))")]),
    dict(id="c14_mro_first_parent_only", props=["C14"], edits=[
        (PU, "        search = clas.__mro__[mro_idx]\n", "        search = clas.__mro__[min(mro_idx, 1)] if clas.__mro__[1] in options else clas.__mro__[mro_idx + (1 if mro_idx + 1 < len(clas.__mro__) and clas.__mro__[mro_idx + 1] in options and clas.__mro__[mro_idx] in options and mro_idx > 1 else 0)]\n")]),
    dict(id="c14_parallel_links_merged", props=["C14"], edits=[
        (PU, "    for link in links:\n        components.append(_one_link_to_puml(link, options))",
             "    for text in {_one_link_to_puml(link, options) for link in links}:\n        components.append(text)")]),
    dict(id="c14_title_uses_parent_options", props=["C14"], edits=[
        (PU, "    v2ops = _resolve_options(type(v2), options)\n", "    v2ops = _resolve_options(type(v1), options)\n")]),
]

PV = "edgegraph/output/pyvis.py"
MUTANTS += [
    # ---------------- C15 -------------------------------------------------
    dict(id="c15_revert_fix_d15", props=["C15"], edits=[
        (PV, "                if vert is edge.v2 and vert is not edge.v1:\n", "                if vert is edge.v2:\n")]),
    dict(id="c15_swap_ij", props=["C15"], edits=[
        (PV, "                    net.add_edge(i, j, title=refunc(edge))\n", "                    net.add_edge(j, i, title=refunc(edge))\n")]),
    dict(id="c15_directed_frozen", props=["C15"], edits=[
        (PV, "            net.directed = issubclass(type(edge), DirectedEdge)\n",
             "            net.directed = net.directed or issubclass(type(edge), DirectedEdge)\n")]),
    dict(id="c15_exact_type_directed", props=["C15"], edits=[
        (PV, "            net.directed = issubclass(type(edge), DirectedEdge)\n",
             "            net.directed = type(edge) is DirectedEdge\n")]),
    dict(id="c15_draw_at_both_ends", props=["C15"], edits=[
        (PV, "                if vert is edge.v2 and vert is not edge.v1:\n                    continue\n",
             "                if vert is edge.v2 and vert is not edge.v1 and not issubclass(type(edge), DirectedEdge):\n                    continue\n")]),
    dict(id="c15_label_is_index_not_rvfunc_for_later_nodes", props=["C15"], edits=[
        (PV, "            net.add_node(i, label=rvfunc(vert))\n", "            net.add_node(i, label=rvfunc(vert) if i < 5 else str(i))\n")]),
]

SG = "edgegraph/structure/singleton.py"
MUTANTS += [
    # ---------------- C17 -------------------------------------------------
    dict(id="c17_revert_fix_d17", props=["C17"], edits=[(SG, "            return (args, jwargs)\n", "            return hash((args, jwargs))\n")]),
    dict(id="c17_revert_fix_d18_call", props=["C17"], edits=[
        (SG, "            key = (cls, hashfunc(args, kwargs))\n", "            key = (type(cls), hashfunc(args, kwargs))\n"),
        (SG, "[(type(obj), hashid)] = obj", "[(type(type(obj)), hashid)] = obj"),
        (SG, "[(cls, hashid)]\n", "[(mcls, hashid)]\n"),
        (SG, "    key = (cls, hashid)\n", "    key = (mcls, hashid)\n"),
        (SG, "if owner is cls]", "if owner is type(cls)]"),
        (SG, "if key[0] is cls]", "if key[0] is type(cls)]")]),
    dict(id="c17_sort_keys_false", props=["C17"], edits=[(SG, "json.dumps(kwargs, sort_keys=True)", "json.dumps(kwargs, sort_keys=False)")]),
    dict(id="c17_check_creates", props=["C17"], edits=[
        (SG, "        return mcls._SemiSingleton__semisingleton_instance_map[key]  # type: ignore\n\n    return None",
             "        return mcls._SemiSingleton__semisingleton_instance_map[key]  # type: ignore\n\n    return cls(*args, **kwargs) if kwargs else None")]),
    dict(id="c17_clear_all_classes", props=["C17"], edits=[
        (SG, "    for key in [key for key in instmap if key[0] is cls]:\n", "    for key in [key for key in instmap if issubclass(key[0], cls)]:\n")]),
    dict(id="c17_kwargs_ignored_when_args", props=["C17"], edits=[
        (SG, "            jwargs = json.dumps(kwargs, sort_keys=True)\n", "            jwargs = json.dumps(kwargs if not args else sorted(kwargs), sort_keys=True)\n")]),
    dict(id="c17_add_mapping_on_wrong_class", props=["C17"], edits=[
        (SG, "[(type(obj), hashid)] = obj", "[(next(c for c in reversed(type(obj).__mro__) if isinstance(c, cls)), hashid)] = obj")]),
]

MUTANTS += [
    # ---------------- C18 -------------------------------------------------
    dict(id="c18_targeted_clear_clears_all", props=["C18"], edits=[
        (SG, "            del TrueSingleton._TrueSingleton__singleton_instances[cls]\n",
             "            TrueSingleton._TrueSingleton__singleton_instances = {}\n")]),
    dict(id="c18_key_by_name", props=["C18"], edits=[
        (SG, "        if cls not in cls._TrueSingleton__singleton_instances:\n            cls._TrueSingleton__singleton_instances[cls] = super(\n                TrueSingleton, cls\n            ).__call__(*args, **kwargs)\n        return cls._TrueSingleton__singleton_instances[cls]",
             "        key = cls.__mro__[-2]\n        if key not in cls._TrueSingleton__singleton_instances:\n            cls._TrueSingleton__singleton_instances[key] = super(\n                TrueSingleton, cls\n            ).__call__(*args, **kwargs)\n        return cls._TrueSingleton__singleton_instances[key]")]),
    dict(id="c18_clear_absent_raises", props=["C18"], edits=[
        (SG, "        if cls in TrueSingleton._TrueSingleton__singleton_instances:\n            del", "        if True:\n            del")]),
    dict(id="c18_clear_all_keeps_subclasses", props=["C18"], edits=[
        (SG, "        TrueSingleton._TrueSingleton__singleton_instances = {}\n",
             "        TrueSingleton._TrueSingleton__singleton_instances = {k: v for k, v in TrueSingleton._TrueSingleton__singleton_instances.items() if len(k.__mro__) > 4}\n")]),
    dict(id="c18_isinstance_lookup", props=["C18"], edits=[
        (SG, "        if cls not in cls._TrueSingleton__singleton_instances:\n",
             "        for k, v in cls._TrueSingleton__singleton_instances.items():\n            if issubclass(k, cls) and k is not cls and args:\n                return v\n        if cls not in cls._TrueSingleton__singleton_instances:\n")]),
]

TE = "edgegraph/structure/twoendedlink.py"
LK = "edgegraph/structure/link.py"
VX = "edgegraph/structure/vertex.py"
EX = "edgegraph/builder/explicit.py"
MUTANTS += [
    # ---------------- C01 -------------------------------------------------
    dict(id="c01_revert_fix_d2", props=["C01"], edits=[
        (LK, "                self._vertices = [v for v in self._vertices if v is not kill]\n", "")]),
    dict(id="c03_replace_end_always_detaches_old", props=["C03"], edits=[
        (TE, "        if (old is not None) and (old not in self._vertices):\n", "        if old is not None:\n")]),
    dict(id="c03_add_to_link_drops_membership_guard", props=["C03"], edits=[
        (VX, "            if self not in link.vertices:\n                link.add_vertex(self)\n", "            link.add_vertex(self)\n")]),
    dict(id="c01_add_vertex_skips_callback_for_second_listing", props=["C01"], edits=[
        (LK, "        if (new is not None) and (self not in new.links):\n            new.add_to_link(self)\n",
             "        if (new is not None) and (self not in new.links) and (len(self._vertices) < 3):\n            new.add_to_link(self)\n")]),
    dict(id="c03_unlink_only_first_end", props=["C03"], edits=[
        (EX, "        link.unlink_from(v1)\n        link.unlink_from(v2)\n", "        link.unlink_from(v1)\n        if destroy:\n            link.unlink_from(v2)\n")]),
    dict(id="c03_replace_end_mutates_before_check", props=["C03"], edits=[
        (TE, "        old = self.vertices[idx]\n        _ = self.vertices[1]\n\n        self._vertices[idx] = new\n",
             "        old = self.vertices[idx]\n        if new is not None:\n            new.add_to_link(self)\n        _ = self.vertices[1]\n\n        self._vertices[idx] = new\n")]),
]

MUTANTS += [
    dict(id="c01_replace_end_old_keeps_link", props=["C01"], edits=[
        (TE, "        if (old is not None) and (old not in self._vertices):\n            old.remove_from_link(self)\n", "")]),
    dict(id="c01_remove_from_link_no_callback_on_crowded_link", props=["C01"], edits=[
        (VX, "            self._links.remove(link)\n            link.unlink_from(self)\n",
             "            self._links.remove(link)\n            if len(link.vertices) < 3:\n                link.unlink_from(self)\n")]),
    dict(id="c01_add_to_link_skips_full_links", props=["C01"], edits=[
        (VX, "            if self not in link.vertices:\n                link.add_vertex(self)\n",
             "            if self not in link.vertices and len(link.vertices) < 2:\n                link.add_vertex(self)\n")]),
    dict(id="c01_add_to_link_duplicates", props=["C01"], edits=[
        (VX, "        if link not in self._links:\n            self._links.append(link)\n            if self not in link.vertices:\n                link.add_vertex(self)\n",
             "        if link not in self._links or len(self._links) > 2:\n            self._links.append(link)\n            if self not in link.vertices:\n                link.add_vertex(self)\n")]),
    dict(id="c01_unlink_from_none_end_confusion", props=["C01"], edits=[
        (LK, "        if kill in self._vertices:\n", "        if kill in self._vertices and None not in self._vertices:\n")]),
    dict(id="c01_lost_end_assignment_half_done", props=["C01"], edits=[
        (TE, "        old = self.vertices[idx]\n        _ = self.vertices[1]\n\n        self._vertices[idx] = new\n",
             "        old = self.vertices[idx]\n        self._vertices[idx] = new\n        _ = self.vertices[1]\n")]),
]

UV = "edgegraph/structure/universe.py"
BS = "edgegraph/structure/base.py"
MUTANTS += [
    # ---------------- C02 -------------------------------------------------
    dict(id="c02_add_vertex_no_dup_guard", props=["C02"], edits=[
        (UV, "        if vert in self._vertices:\n            return\n\n        self._vertices.append(vert)", "        self._vertices.append(vert)")]),
    dict(id="c02_add_vertex_prepends", props=["C02"], edits=[
        (UV, "        self._vertices.append(vert)\n        if self not in vert.universes:", "        self._vertices.insert(0, vert)\n        if self not in vert.universes:")]),
    dict(id="c02_remove_vertex_silent", props=["C02"], edits=[
        (UV, "        self._vertices.remove(vert)\n        if self in vert.universes:", "        if vert not in self._vertices:\n            return\n        self._vertices.remove(vert)\n        if self in vert.universes:")]),
    dict(id="c02_remove_from_universe_no_callback_when_nested", props=["C02"], edits=[
        (VX, "        super().remove_from_universe(universe)\n        if self in universe.vertices:\n", "        super().remove_from_universe(universe)\n        if self in universe.vertices and not hasattr(self, \"_vertices\"):\n")]),
    dict(id="c02_vertex_init_skips_later_universes", props=["C02"], edits=[
        (VX, "        for uni in self.universes:\n            uni.add_vertex(self)\n", "        for uni in self.universes[:2]:\n            uni.add_vertex(self)\n")]),
    dict(id="c02_base_no_dedup", props=["C02"], edits=[
        (BS, "        self._universes = [*dict.fromkeys(self._universes)]\n", "")]),
]

MUTANTS += [
    # ---------------- C19 -------------------------------------------------
    dict(id="c19_revert_whitelist_copy", props=["C19"], edits=[
        (UV, "                    t: dict(linkset.items())\n                    for t, linkset in edge_whitelist.items()\n                }\n            self.edge_whitelist",
             "                    t: linkset\n                    for t, linkset in edge_whitelist.items()\n                }\n            self.edge_whitelist")]),
    dict(id="c19_applies_to_no_release_of_old", props=["C19"], edits=[
        (UV, "        if (old is not None) and (old.laws is self):\n            old.laws = None\n", "")]),
    dict(id="c19_laws_setter_no_detach_old", props=["C19"], edits=[
        (UV, "        if (old is not None) and (old.applies_to is self):\n            old.applies_to = None\n", "")]),
    dict(id="c19_laws_none_is_noop_when_already_moved", props=["C19"], edits=[
        (UV, "        if new is self._laws:\n            return\n", "        if new is self._laws or (new is not None and new.applies_to is not None and self._laws is None):\n            return\n")]),
    dict(id="c19_getter_multipath_returns_cycles", props=["C19"], edits=[
        (UV, "        return self._multipath\n", "        return self._cycles\n")]),
    dict(id="c19_init_forgets_given_laws_binding", props=["C19"], edits=[
        (UV, "        self._laws.applies_to = self\n", "        if laws is None:\n            self._laws.applies_to = self\n        else:\n            self._laws._applies_to = self\n")]),
    dict(id="c19_whitelist_getter_returns_inner_dicts", props=["C19"], edits=[
        (UV, "                t: types.MappingProxyType(dict(linkset.items()))\n", "                t: linkset\n")]),
]

MUTANTS += [
    # ---------------- C03 -------------------------------------------------
    dict(id="c03_revert_fix_d1", props=["C03", "C01"], edits=[
        (TE, "        self._replace_end(0, new)\n", "        v2 = self.v2\n        self.unlink_from(self.v1)\n        self._vertices = []\n        self.add_vertex(new)\n        self._vertices.append(v2)\n"),
        (TE, "        self._replace_end(1, new)\n", "        v1 = self.v1\n        self.unlink_from(self.v2)\n        self._vertices = [v1]\n        self.add_vertex(new)\n")]),
    dict(id="c03_links_prepended", props=["C03"], edits=[
        (VX, "            self._links.append(link)\n", "            self._links.insert(0, link)\n")]),
    dict(id="c03_dontdup_ignores_reverse_direction", props=["C03"], edits=[
        (EX, "            if lnk.other(v1) is v2:\n", "            if lnk.other(v1) is v2 and lnk.v1 is v1:\n")]),
    dict(id="c03_unlink_directed_only_forward", props=["C03"], edits=[
        (EX, "    links = helpers.find_links(v1, v2, direction_sensitive=False)\n", "    links = helpers.find_links(v1, v2, direction_sensitive=True, unknown_handling=helpers.LNK_UNKNOWN_NEIGHBOR)\n")]),
    dict(id="c03_unlink_returns_all_links_of_v1", props=["C03"], edits=[
        (EX, "    if not destroy:\n        out = set()\n", "    if not destroy:\n        out = set(l for l in v1.links if l.other(v1) is not None and len(v1.links) > 2)\n")]),
    dict(id="c03_typecheck_after_mutation", props=["C03"], edits=[
        (TE, "        if (v2 is not None) and (not issubclass(type(v2), vertex.Vertex)):\n            raise TypeError(f\"v2 is not a Vertex object!  got {v2}\")\n",
             "        if (v2 is not None) and (not issubclass(type(v2), vertex.Vertex)):\n            if v1 is not None:\n                v1._links.append(self)\n            raise TypeError(f\"v2 is not a Vertex object!  got {v2}\")\n")]),
    dict(id="c03_replace_end_reattaches_at_end", props=["C03"], edits=[
        (TE, "        if new is not None:\n            new.add_to_link(self)\n", "        if new is not None:\n            if new is old:\n                new.remove_from_link(self)\n                self._vertices.insert(idx, new)\n            new.add_to_link(self)\n")]),
]

MUTANTS += [
    # ---------------- C05 -------------------------------------------------
    dict(id="c05_revert_fix_d6_replace_end", props=["C05"], edits=[
        (TE, "            new.add_to_link(self)\n        self._invalidate_ends()\n", "            new.add_to_link(self)\n")]),
    dict(id="c05_revert_fix_d7_unlink_from", props=["C05"], edits=[
        (LK, "                kill.remove_from_link(self)\n\n            self._invalidate_ends()\n", "                kill.remove_from_link(self)\n")]),
    dict(id="c05_revert_fix_d8", props=["C05"], edits=[
        (VX, "        self.__qa_nb_cache = {}\n        if not self.NEIGHBOR_CACHING:\n            return\n", "        if not self.NEIGHBOR_CACHING:\n            return\n        self.__qa_nb_cache = {}\n")]),
    dict(id="c05_revert_fix_d9", props=["C05"], edits=[
        (VX, "        stats = self._CACHE_STATS.setdefault(self.uid, [0, 0, 0, 0])\n", "        stats = self._CACHE_STATS[self.uid]\n")]),
    dict(id="c05_remove_from_link_no_invalidate", props=["C05"], edits=[
        (VX, "            link.unlink_from(self)\n\n        self._qa_neighbors_invalidate()\n", "            link.unlink_from(self)\n"),
        (LK, "                kill.remove_from_link(self)\n\n            self._invalidate_ends()\n", "                kill.remove_from_link(self)\n")]),
    dict(id="c05_cache_key_ignores_filter", props=["C05"], edits=[
        (H, "    cached = vert._qa_neighbors_get(\n        direction_sensitive, unknown_handling, filterfunc\n    )", "    cached = vert._qa_neighbors_get(\n        direction_sensitive, unknown_handling, filterfunc is None\n    )"),
        (H, "    vert._qa_neighbors_insert(\n        nbs, direction_sensitive, unknown_handling, filterfunc\n    )", "    vert._qa_neighbors_insert(\n        nbs, direction_sensitive, unknown_handling, filterfunc is None\n    )")]),
    dict(id="c05_cache_key_ignores_unknown_mode", props=["C05"], edits=[
        (H, "    cached = vert._qa_neighbors_get(\n        direction_sensitive, unknown_handling, filterfunc\n    )", "    cached = vert._qa_neighbors_get(\n        direction_sensitive, 0, filterfunc\n    )"),
        (H, "    vert._qa_neighbors_insert(\n        nbs, direction_sensitive, unknown_handling, filterfunc\n    )", "    vert._qa_neighbors_insert(\n        nbs, direction_sensitive, 0, filterfunc\n    )")]),
    dict(id="c05_invalidate_ends_skips_first", props=["C05"], edits=[
        (LK, "        for vert in self._vertices:\n            if vert is not None:\n                # pylint: disable-next=protected-access\n                vert._qa_neighbors_invalidate()",
             "        for vert in self._vertices[1:]:\n            if vert is not None:\n                # pylint: disable-next=protected-access\n                vert._qa_neighbors_invalidate()")]),
]

MUTANTS += [
    # ---------------- C12 -------------------------------------------------
    dict(id="c12_revert_fix_d12_out", props=["C12"], edits=[
        (VX, "            return list(self.__qa_nb_cache[args])\n", "            return self.__qa_nb_cache[args]\n")]),
    dict(id="c12_revert_fix_d12_in", props=["C12"], edits=[
        (VX, "        self.__qa_nb_cache[args] = list(answer)\n", "        self.__qa_nb_cache[args] = answer\n")]),
    dict(id="c12_revert_fix_d13", props=["C12", "C19"], edits=[
        (UV, "                    t: dict(linkset.items())\n                    for t, linkset in edge_whitelist.items()\n                }\n            self.edge_whitelist",
             "                    t: linkset\n                    for t, linkset in edge_whitelist.items()\n                }\n            self.edge_whitelist")]),
    dict(id="c12_universe_vertices_returns_internal", props=["C12"], edits=[
        (UV, "        return list(self._vertices)\n", "        return self._vertices\n")]),
    dict(id="c12_base_universes_returns_internal", props=["C12"], edits=[
        (BS, "        return list(self._universes)\n", "        return self._universes\n")]),
    dict(id="c12_universe_init_keeps_list_when_unique", props=["C12"], edits=[
        (UV, "        self._vertices: list[Vertex] = []\n        if vertices is not None:\n            for v in vertices:\n                self.add_vertex(v)\n",
             "        self._vertices: list[Vertex] = []\n        if vertices is not None:\n            for v in vertices:\n                self.add_vertex(v)\n            if isinstance(vertices, list) and len(vertices) == len(self._vertices):\n                self._vertices = vertices\n")]),
    dict(id="c12_base_init_keeps_universes_list", props=["C12"], edits=[
        (BS, "        self._universes = [*dict.fromkeys(self._universes)]\n",
             "        self._universes = [*dict.fromkeys(self._universes)]\n        if isinstance(universes, list) and len(universes) == len(self._universes):\n            self._universes = universes\n")]),
    dict(id="c12_whitelist_outer_dict_returned", props=["C12"], edits=[
        (UV, "        out = types.MappingProxyType(\n            {\n                t: types.MappingProxyType(dict(linkset.items()))\n                for t, linkset in self._edge_whitelist.items()\n            }\n        )\n        return out",
             "        out = {\n                t: types.MappingProxyType(dict(linkset.items()))\n                for t, linkset in self._edge_whitelist.items()\n            }\n        self._edge_whitelist = out\n        return out")]),
]

AM = "edgegraph/builder/adjmatrix.py"
MUTANTS += [
    # ---------------- C11 -------------------------------------------------
    dict(id="c11_matrix_swap_ij", props=["C11"], edits=[
        (AM, "                explicit.link_from_to(vertices[i], linktype, vertices[j])", "                explicit.link_from_to(vertices[j], linktype, vertices[i])")]),
    dict(id="c11_matrix_cell_is_true", props=["C11"], edits=[(AM, "            if cell:\n", "            if cell in (1, True) or cell == 1:\n")]),
    dict(id="c11_matrix_validate_late", props=["C11"], edits=[
        (AM, "    # and make sure that the matrix is a square\n", "    uni = Universe()\n\n    for vert in vertices:\n        vert.add_to_universe(uni)\n    # and make sure that the matrix is a square\n"),
        (AM, "    # okay, good enough!\n\n    uni = Universe()\n\n    for vert in vertices:\n        vert.add_to_universe(uni)\n", "    # okay, good enough!\n")]),
    dict(id="c11_dict_dontdup", props=["C11"], edits=[
        (AL, "            explicit.link_from_to(v1, linktype, v2)\n", "            explicit.link_from_to(v1, linktype, v2, dontdup=True)\n")]),
    dict(id="c11_dict_values_added_first", props=["C11"], edits=[
        (AL, "        v1.add_to_universe(uni)\n        for v2 in v2s:\n            explicit.link_from_to(v1, linktype, v2)\n            v2.add_to_universe(uni)\n",
             "        v2s = list(v2s)\n        for v2 in v2s:\n            v2.add_to_universe(uni)\n        v1.add_to_universe(uni)\n        for v2 in v2s:\n            explicit.link_from_to(v1, linktype, v2)\n")]),
    dict(id="c11_dict_skips_self_entries", props=["C11"], edits=[
        (AL, "            explicit.link_from_to(v1, linktype, v2)\n", "            if v2 is not v1:\n                explicit.link_from_to(v1, linktype, v2)\n")]),
    dict(id="c11_matrix_upper_triangle_for_undirected", props=["C11"], edits=[
        (AM, "            if cell:\n", "            if cell and not (j < i and not issubclass(linktype, DirectedEdge) and matrix[j][i]):\n")]),
]

NP = "edgegraph/output/nrpickler.py"
MUTANTS += [
    # ---------------- C10 -------------------------------------------------
    dict(id="c10_revert_fix_d11", props=["C10"], edits=[
        (NP, "                    if id(lw.obj) in self.memo:\n", "                    if False:\n")]),
    dict(id="c10_revert_fix_d9", props=["C10"], edits=[
        (VX, "        stats = self._CACHE_STATS.setdefault(self.uid, [0, 0, 0, 0])\n", "        stats = self._CACHE_STATS[self.uid]\n")]),
    dict(id="c10_lazy_only_at_start", props=["C10"], edits=[
        (NP, "        if not self._eager:\n            self.lazywrites.append(_LazySave(obj))\n", "        if not self._eager and len(self.memo) <= 300:\n            self.lazywrites.append(_LazySave(obj))\n")]),
    dict(id="c10_getstate_drops_universes", props=["C10"], edits=[
        (BS, "    @property\n    def uid(self) -> int:", "    def __getstate__(self):\n        d = dict(self.__dict__)\n        d['_universes'] = list(d.get('_universes', []))[:1]\n        return d\n\n    @property\n    def uid(self) -> int:")]),
    dict(id="c10_tail_requeue_lost", props=["C10"], edits=[
        (NP, "                    if self.lazywrites:\n                        self.lazywrites.extend(lws)\n                        break",
             "                    if self.lazywrites:\n                        self.lazywrites.extend(lws if len(lws) < 400 else lws[:-1])\n                        break")]),
]

MUTANTS += [
    # ---------------- C13 -------------------------------------------------
    dict(id="c13_revert_fix_d14", props=["C13"], edits=[
        (PV, "    finally:\n", "    except AssertionError:\n        raise\n    else:\n")]),
    dict(id="c13_cache_insert_in_finally", props=["C13"], edits=[
        (H, "    nbs = []\n    for link in vert.links:\n", "    nbs = []\n    try:\n      return _nb_body(vert, nbs, direction_sensitive, unknown_handling, filterfunc)\n    finally:\n      vert._qa_neighbors_insert(nbs, direction_sensitive, unknown_handling, filterfunc)\n\n\ndef _nb_body(vert, nbs, direction_sensitive, unknown_handling, filterfunc):\n    for link in vert.links:\n"),
        (H, "    # see note near top of function about justification for this ignore\n    # pylint: disable-next=protected-access\n    vert._qa_neighbors_insert(\n        nbs, direction_sensitive, unknown_handling, filterfunc\n    )\n\n    return nbs", "    return nbs")]),
    dict(id="c13_plaintext_memo_attr", props=["C13"], edits=[
        (PT, "        if rfunc:\n            start = rfunc(vert)\n", "        if rfunc:\n            vert._rendered = True\n            start = rfunc(vert)\n")]),
    dict(id="c13_puml_title_cached_on_vertex", props=["C13"], edits=[
        (PU, "    if \"user_render_func\" in opts:\n        return opts[\"user_render_func\"](vertex, options)\n", "    if \"user_render_func\" in opts:\n        vertex.puml_busy = True\n        out = opts[\"user_render_func\"](vertex, options)\n        del vertex.puml_busy\n        return out\n")]),
    dict(id="c13_dft_marks_vertices", props=["C13"], edits=[
        (DF, "    visited[v] = None\n\n    if (ff_result and ff_result(v)) or (not ff_result):", "    visited[v] = None\n    v._dft_mark = 1\n    try:\n        keep = (ff_result and ff_result(v)) or (not ff_result)\n    finally:\n        pass\n    del v._dft_mark\n\n    if keep:")]),
    dict(id="c13_bft_temp_unlink_on_filter", props=["C13"], edits=[
        (BF, "    visited = set()\n    queue = collections.deque([start])\n    visited.add(start)\n\n    if (ff_result and ff_result(start)) or (not ff_result):\n        yield start",
             "    visited = set()\n    queue = collections.deque([start])\n    visited.add(start)\n    start.bft_root = True\n\n    if (ff_result and ff_result(start)) or (not ff_result):\n        yield start\n    del start.bft_root")]),
]

MUTANTS += [
    # ---------------- generalised from the seeded changes: truthiness / identity / size thresholds ---------------
    dict(id="c06_falsy_universe_treated_as_none", props=["C06"], edits=[
        (BF, "            if (uni is not None) and (v not in uni.vertices):\n                continue\n\n            # make sure",
             "            if uni and (v not in uni.vertices):\n                continue\n\n            # make sure")]),
    dict(id="c06_dfti_falsy_universe", props=["C06"], edits=[
        (DF, "            if (uni is not None) and (v not in uni.vertices):\n                continue\n\n            discovered.append(v)",
             "            if uni and (v not in uni.vertices):\n                continue\n\n            discovered.append(v)")]),
    dict(id="c04_falsy_link_skipped", props=["C04"], edits=[
        (H, "    nbs = []\n    for link in vert.links:\n", "    nbs = []\n    for link in vert.links:\n        if not link:\n            continue\n")]),
    dict(id="c09_falsy_link_skipped", props=["C09"], edits=[
        (H, "    links = set()\n    for link in v1.links:\n", "    links = set()\n    for link in v1.links:\n        if not link:\n            continue\n")]),
    dict(id="c08_bfs_falsy_universe", props=["C08"], edits=[
        (BF, "            if (uni is not None) and (v not in uni.vertices):\n                continue\n\n            # check for a match first",
             "            if uni and (v not in uni.vertices):\n                continue\n\n            # check for a match first")]),
    dict(id="c16_rfunc_result_stripped", props=["C16"], edits=[
        (PT, "                node = rfunc(end)\n", "                node = rfunc(end).strip() or rfunc(end)\n")]),
    dict(id="c11_matrix_big_index_identity", props=["C11"], edits=[
        (AM, "            if cell:\n", "            if cell and not (i is not j and i == j):\n")]),
    dict(id="c14_sorted_relations_dedup", props=["C14"], edits=[
        (PU, "    for link in links:\n        components.append(_one_link_to_puml(link, options))",
             "    for text in sorted({_one_link_to_puml(link, options) for link in links} if len(links) > 40 else [_one_link_to_puml(link, options) for link in links]):\n        components.append(text)")]),
]

MUTANTS += [
    dict(id="c18_revert_fix_d22", props=["C18"], edits=[
        (SG, "    def __call__(*args, **kwargs):\n        cls, args = args[0], args[1:]\n        if cls not in cls._TrueSingleton", "    def __call__(cls, *args, **kwargs):\n        if cls not in cls._TrueSingleton")]),
    dict(id="c17_revert_fix_d22", props=["C17"], edits=[
        (SG, "        def __call__(*args, **kwargs):\n            cls, args = args[0], args[1:]\n", "        def __call__(cls, *args, **kwargs):\n")]),
]

MUTANTS += [
    # ---------------- round 5 -----------------------------------------------
    dict(id="c10_revert_fix_d23", props=["C10"], edits=[
        (NP, "        if isinstance(obj, (type, types.FunctionType)):\n", "        if False:\n")]),
    dict(id="c10_eager_only_for_classes", props=["C10"], edits=[
        (NP, "        if isinstance(obj, (type, types.FunctionType)):\n", "        if isinstance(obj, type) and obj.__module__ == '__main__':\n")]),
    dict(id="c14_revert_fix_d24", props=["C14"], edits=[
        (PU, " and hasattr(vertex, a)]", "]")]),
    dict(id="c10_revert_fix_d25", props=["C10"], edits=[
        (NP, "        elif not (isinstance(obj, BaseObject) and self._save_shell(obj)):\n", "        else:\n")]),
    dict(id="c10_shell_state_never_written", props=["C10"], edits=[
        (NP, "            if not self._eager:\n                self._queue_shell_states()\n", "")]),
    # (dropping the memo test in _save_shell is behaviour-preserving: pickle's save_reduce itself answers an already
    #  memoized object with POP + GET - not a mutant)
    dict(id="c15_revert_fix_d26", props=["C15"], edits=[
        (PV, "                if not (\n                    isinstance(j, int)\n                    and 0 <= j < len(verts)\n                    and verts[j] is other\n                ):\n", "                if False:\n")]),
    dict(id="c13_revert_fix_d27", props=["C13"], edits=[
        (PV, "            try:\n                # pylint: disable-next=protected-access\n                del vert.__make_pyvis_net_i\n            except AttributeError:\n                pass\n",
             "            if \"__make_pyvis_net_i\" in vars(vert):\n                del vert.__make_pyvis_net_i\n")]),
    dict(id="c13_cleanup_only_reached_by_second_loop", props=["C13"], edits=[
        (PV, "            marked.append(vert)\n", "            if vert.links:\n                marked.append(vert)\n")]),
]
