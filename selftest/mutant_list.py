"""
Deliberate property-breaking edits (textual), used by mutants.py.
Each mutant: id, props (checks expected to fire), edits.
edit = (file, old, new) -- `old` must be unique in the file -- or
       (file, old, new, k) -- replace only the k-th (0-based) occurrence.
"""

H = "edgegraph/traversal/helpers.py"
BF = "edgegraph/traversal/breadthfirst.py"
DF = "edgegraph/traversal/depthfirst.py"

MUTANTS = [
    # ---------------- C04 / C09 ------------------------------------------
    dict(id="c04_type_is", props=["C04"], edits=[
        (H, "elif issubclass(type(link), DirectedEdge) and (link.v2 is vert):",
            "elif type(link) is DirectedEdge and (link.v2 is vert):", 1)]),
    dict(id="c04_undirected_exact_type", props=["C04"], edits=[
        (H, "if issubclass(type(link), UnDirectedEdge):", "if type(link) is UnDirectedEdge:", 1)]),
    dict(id="c04_selfloop_twice_any", props=["C04"], edits=[
        (H, "            if filterfunc is None or filterfunc(link, v2):\n                nbs.append(v2)\n\n        else:",
            "            if filterfunc is None or filterfunc(link, v2):\n                nbs.append(v2)\n                if link.v1 is link.v2:\n                    nbs.append(v2)\n\n        else:")]),
    dict(id="c04_backward_filter_skipped", props=["C04"], edits=[
        (H, "                if filterfunc is None or filterfunc(link, v2):", "                if True:", 3)]),
    dict(id="c04_revert_fix_d5", props=["C04"], edits=[
        (H, "                    if filterfunc is None or filterfunc(link, v2):\n                        nbs.append(v2)",
            "                    nbs.append(v2)", 0)]),
    dict(id="c09_revert_fix_d5", props=["C09"], edits=[
        (H, "                    if filterfunc is None or filterfunc(link):\n                        links.add(link)",
            "                    links.add(link)")]),
    dict(id="c09_directed_either_way", props=["C09"], edits=[
        (H, "                if link.v1 is not v1:\n", "                if link.v1 is not v1 and link.v2 is not v1:\n")]),
    dict(id="c09_selfloop_skipped", props=["C09"], edits=[
        (H, "        if link.other(v1) is not v2:\n", "        if link.other(v1) is not v2 or link.v1 is link.v2:\n")]),
    dict(id="c09_insens_skips_filter", props=["C09"], edits=[
        (H, "            if filterfunc is None or filterfunc(link):\n                links.add(link)\n\n    return links",
            "            links.add(link)\n\n    return links")]),
    # ---------------- C06 / C07 ------------------------------------------
    dict(id="c06_bft_no_universe_test", props=["C06"], edits=[
        (BF, "            if (uni is not None) and (v not in uni.vertices):\n                continue\n\n            # make sure",
             "            # make sure")]),
    dict(id="c06_dftr_universe_only_at_top", props=["C06"], edits=[
        (DF, "        if (uni is not None) and (w not in uni.vertices):\n            continue\n        if w not in visited:\n            yield from",
             "        if (uni is not None) and (w not in uni.vertices) and (len(visited) < 2):\n            continue\n        if w not in visited:\n            yield from")]),
    dict(id="c06_dfti_unknown_dropped", props=["C06"], edits=[
        (DF, "                unknown_handling=unknown_handling,\n                filterfunc=ff_via,\n            ):\n                stack.append(w)",
             "                unknown_handling=helpers.LNK_UNKNOWN_NEIGHBOR if unknown_handling == helpers.LNK_UNKNOWN_ERROR else unknown_handling,\n                filterfunc=ff_via,\n            ):\n                stack.append(w)")]),
    dict(id="c06_bft_ffresult_prunes", props=["C06"], edits=[
        (BF, "                visited.add(v)\n                queue.append(v)\n\n                if (ff_result and ff_result(v)) or (not ff_result):\n                    yield v",
             "                visited.add(v)\n\n                if (ff_result and ff_result(v)) or (not ff_result):\n                    queue.append(v)\n                    yield v")]),
    dict(id="c07_bft_lifo", props=["C07"], edits=[
        (BF, "        u = queue.popleft()\n        for v in helpers.neighbors(\n", "        u = queue.pop()\n        for v in helpers.neighbors(\n")]),
    dict(id="c07_dfti_reversed_push", props=["C07"], edits=[
        (DF, "            ):\n                stack.append(w)", "            )[::-1]:\n                stack.append(w)")]),
    dict(id="c07_dfti_mark_on_push", props=["C07"], edits=[
        (DF, "            ):\n                stack.append(w)", "            ):\n                if w not in stack:\n                    stack.append(w)")]),
    dict(id="c07_dftr_sorted_by_uid", props=["C07"], edits=[
        (DF, "    for w in helpers.neighbors(\n        v,\n        direction_sensitive=direction_sensitive,",
             "    for w in sorted(helpers.neighbors(\n        v,\n        direction_sensitive=direction_sensitive,", 0),
        (DF, "        filterfunc=ff_via,\n    ):\n", "        filterfunc=ff_via,\n    ), key=id):\n", 0)]),
]
