"""
Class zoo used by the workloads.

Everything here is importable by qualified name so that dill pickles instances
by reference and a fresh interpreter (egverif.worker) can load them.
No class overrides __eq__/__hash__ (the properties assume identity semantics).
"""

import abc
import enum
import functools

from edgegraph.structure import (
    Vertex,
    Universe,
    Link,
    TwoEndedLink,
    DirectedEdge,
    UnDirectedEdge,
)
from edgegraph.structure.universe import UniverseLaws


class VSub(Vertex):
    #: a class-level default: instances *have* the attribute although it is not in their __dict__
    kind = "sub"


class VSubSub(VSub):
    pass


class FalsyVertex(Vertex):
    """A vertex whose truth value is False."""

    def __bool__(self):
        return False


class EmptyVertex(Vertex):
    """A vertex that looks like an empty container."""

    def __len__(self):
        return 0


class StrVertex(Vertex):
    """Debug repr and pretty str differ; format() differs again."""

    def __repr__(self):
        return f"StrVertex({getattr(self, 'idx', '?')!r})"

    def __str__(self):
        return f"pretty{getattr(self, 'idx', '?')}"

    def __format__(self, spec):
        return f"fmt{getattr(self, 'idx', '?')}"


class VPlain(Vertex):
    pass


class VFancy(Vertex):
    @property
    def parity(self):
        """An attribute that exists only through the class (like uid)."""
        return getattr(self, "idx", 0) % 2


class VBoth(VPlain, VFancy):
    """Multiple inheritance: MRO is VBoth, VPlain, VFancy, Vertex."""


class VSlots(Vertex):
    """A subclass that declares slots next to the inherited __dict__ (its pickled state is a (dict, slots) pair)."""

    __slots__ = ("slot_a", "slot_b")

    def __init__(self, **kw):
        super().__init__(**kw)
        self.slot_a = ["sa", getattr(self, "idx", None)]


class Marker:
    """Plain mixin (not a graph class)."""


class Tag(str):
    """A string subclass: equal (and hash-equal) to the plain string, but not the same kind of object."""


class Level(int):
    """An int subclass."""


class Handle:
    """
    A value whose type cannot be pickled by itself (like a C-extension handle: struct.Struct, a compiled pattern of
    an extension library): the host application registers a reducer for it with copyreg.pickle() at start-up -
    which happens AFTER the library was imported.
    """

    def __init__(self, name):
        self.name = name

    def __reduce_ex__(self, protocol):
        raise TypeError("cannot pickle 'Handle' object (no reducer registered with copyreg)")

    def egv_canon(self):
        return self.name


def reduce_handle(h):
    return Handle, (h.name,)


class Colour(str, enum.Enum):
    RED = "idx"      # equal to an attribute NAME every vertex has (written early in any dump)
    NOTE = "note"


class Rank(enum.IntEnum):
    LOW = 0
    HIGH = 1


class EqVertex(Vertex):
    """
    Distinct vertices that compare EQUAL (value __eq__/__hash__ on `key`).  Only used where the property
    itself speaks of identity ("the opposite end"): neighbors() / find_links() on a link joining two twins.
    """

    def __eq__(self, other):
        return isinstance(other, EqVertex) and getattr(self, "key", None) == getattr(other, "key", None)

    def __hash__(self):
        return hash(getattr(self, "key", None))


class VNamed(Vertex):
    """
    The ordinary value-object recipe: __eq__ / __hash__ read an instance attribute (`name`, unique per vertex in
    these workloads, so equality coincides with identity).  An instance that has not received its state yet - as
    happens to objects on reference cycles while a pickle is being loaded - cannot be hashed.
    """

    def __eq__(self, other):
        return isinstance(other, VNamed) and self.name == other.name

    def __hash__(self):
        return hash(self.name)


class VCity(Vertex):
    """A custom repr that is not ASCII (names, units, arrows) - what a vertex renders as when no rfunc is given."""

    def __repr__(self):
        return f"City(Z\u00fcrich \u2116{getattr(self, 'idx', '?')} \u2192 \U0001f5fa)"


class DSub(DirectedEdge):
    pass


class AbcEdge(DirectedEdge, metaclass=abc.ABCMeta):
    """An edge class with a metaclass of its own (ABCMeta: the class takes part in an abstract-base-class scheme)."""


class AbcUEdge(UnDirectedEdge, metaclass=abc.ABCMeta):
    pass


class DSubSub(DSub):
    pass


class USub(UnDirectedEdge):
    pass


class MixEdge(Marker, DirectedEdge):
    """A directed edge whose FIRST base is a plain mixin."""


class FalsyEdge(DirectedEdge):
    """A directed edge whose truth value is False."""

    def __bool__(self):
        return False


class World(Universe):
    """A plain subclass of Universe (no overrides): 'a universe' is an isinstance notion."""


class FalsyUniverse(Universe):
    """A universe that looks like an empty container (falsy) although it has members."""

    def __len__(self):
        return 0


class RenamedEdge(DirectedEdge):
    """A user edge class whose end parameters are not called v1 / v2."""

    def __init__(self, src=None, dst=None, *, uid=None, attributes=None):
        super().__init__(src, dst, uid=uid, attributes=attributes)


class PosOnlyEdge(UnDirectedEdge):
    """A user edge class whose end parameters are positional-only."""

    def __init__(self, a=None, b=None, /, *, uid=None, attributes=None):
        super().__init__(a, b, uid=uid, attributes=attributes)


class OtherLink(TwoEndedLink):
    """A two-ended link that is neither directed nor undirected."""


class OtherLink2(OtherLink):
    pass


class MultiLink(Link):
    """n-ended link; may list one vertex several times."""


class DuckLink(Link):
    """
    A user-defined two-ended link built directly on Link (not on TwoEndedLink): it offers v1, v2 and other(),
    which is all neighbors() / find_links() ask of a link class they do not know.
    """

    def __init__(self, v1=None, v2=None, *, uid=None, attributes=None):
        super().__init__(vertices=[v1, v2], uid=uid, attributes=attributes)

    @property
    def v1(self):
        return self.vertices[0]

    @property
    def v2(self):
        return self.vertices[1]

    def other(self, end):
        a, b = self.vertices[0], self.vertices[1]
        if end is a:
            return b
        if end is b:
            return a
        return None


# Distinct classes that share their __name__ with another class (ui.Node / model.Node; an application's own
# `class Vertex(edgegraph.structure.Vertex)`).  Never pickled by reference, so kept out of the C05/C10 families.
OtherLinkNamesake = type("OtherLink", (TwoEndedLink,), {"__doc__": "unknown link class #2 called OtherLink"})
VertexNamesake = type("Vertex", (Vertex,), {"__doc__": "an application's own class called Vertex"})
VSubNamesake = type("VSub", (VFancy,), {"__doc__": "a second class called VSub, configured through VFancy"})


class UnhashableVertex(Vertex):
    """
    Compares by identity but cannot be hashed (`__eq__` without `__hash__`, as a dataclass vertex would be).  The
    list-based parts of the library (links, universes, neighbors(), find_links(), the iterative depth-first pair)
    work with such vertices; set/dict based traversals legitimately refuse them (TypeError).
    """

    __hash__ = None

    def __eq__(self, other):
        return self is other


class RankedVertex(Vertex):
    """
    Overrides the public `links` accessor: the same links, ordered by their tag (a user steering traversal order).
    Everything that speaks of "the order of v.links" means this order.
    """

    @property
    def links(self):
        return tuple(sorted(super().links, key=lambda l: (getattr(l, "tag", 0), getattr(l, "eidx", 0))))


class VDirLess(Vertex):
    """Overrides __dir__ to list its public dynamic attributes only (what a tidy repr / tab completion wants)."""

    def __dir__(self):
        return [k for k in vars(self) if not k.startswith("_")]


class VRecord(Vertex):
    """Record-like: an attribute that was never set reads as None instead of raising."""

    def __getattr__(self, name):
        if name.startswith("__") and name.endswith("__"):
            raise AttributeError(name)
        return None


class VBag(Vertex):
    """
    Record-style vertex: names its base classes do not manage are filed in a bag (the public `extras` dictionary), not
    in the instance dictionary; reading and deleting them goes the same way (setattr / getattr / delattr agree).
    """

    def __init__(self, *args, **kwargs):
        object.__setattr__(self, "extras", {})
        super().__init__(*args, **kwargs)

    def __setattr__(self, name, value):
        if (name.startswith("_") and not name.startswith("__")) or name in vars(self) or hasattr(type(self), name):
            object.__setattr__(self, name, value)
        else:
            vars(self)["extras"][name] = value

    def __getattr__(self, name):  # only reached when the normal lookup misses
        try:
            return vars(self)["extras"][name]
        except KeyError:
            raise AttributeError(name) from None

    def __delattr__(self, name):
        if name in vars(self)["extras"]:
            del vars(self)["extras"][name]
        else:
            object.__delattr__(self, name)


class ClusterVertex(Vertex):
    """A vertex that is also an iterable of vertices (a cluster yielding its members)."""

    def __init__(self, members=(), **kw):
        super().__init__(**kw)
        self.members = list(members)

    def __iter__(self):
        return iter(self.members)


class VCustomState(Vertex):
    """Customises its own un-pickling the way the pickle documentation shows it (no super() call)."""

    def __setstate__(self, state):
        self.__dict__.update(state)


class VCachingOn(Vertex):
    """Switches the neighbor cache on for this class only (the library reads the switch through the instance)."""

    NEIGHBOR_CACHING = True


class VCallable(Vertex):
    """Instances are callable (a task / handler vertex)."""

    def __call__(self, *a, **k):
        return getattr(self, "idx", None)


VERTEX_CLASSES = {
    c.__name__: c
    for c in (Vertex, VSub, VSubSub, FalsyVertex, EmptyVertex, Universe, VPlain, VFancy, VBoth, EqVertex, StrVertex, VSlots, VCallable, VCustomState, VCachingOn)
}
EDGE_CLASSES = {
    c.__name__: c
    for c in (
        DirectedEdge,
        UnDirectedEdge,
        DSub,
        DSubSub,
        USub,
        MixEdge,
        FalsyEdge,
        RenamedEdge,
        PosOnlyEdge,
        OtherLink,
        OtherLink2,
        TwoEndedLink,
    )
}
# classes for graph-spec based checks only (not part of the history driver's op language)
SPEC_ONLY_EDGE_CLASSES = {"DuckLink": DuckLink, "OtherLink~": OtherLinkNamesake, "AbcEdge": AbcEdge, "AbcUEdge": AbcUEdge}
SPEC_ONLY_VERTEX_CLASSES = {"Vertex~": VertexNamesake, "VSub~": VSubNamesake, "UnhashableVertex": UnhashableVertex,
                            "RankedVertex": RankedVertex, "VDirLess": VDirLess, "VRecord": VRecord,
                            "ClusterVertex": ClusterVertex, "VBag": VBag, "VNamed": VNamed, "VCity": VCity}
LINK_CLASSES = dict(EDGE_CLASSES)
LINK_CLASSES["MultiLink"] = MultiLink
ALL_CLASSES = {}
ALL_CLASSES.update(VERTEX_CLASSES)
ALL_CLASSES.update(LINK_CLASSES)
ALL_CLASSES["UniverseLaws"] = UniverseLaws
ALL_CLASSES["FalsyUniverse"] = FalsyUniverse
ALL_CLASSES["World"] = World

DIRECTED_NAMES = ("DirectedEdge", "DSub", "DSubSub", "MixEdge", "FalsyEdge", "RenamedEdge")
UNDIRECTED_NAMES = ("UnDirectedEdge", "USub", "PosOnlyEdge")
OTHER_NAMES = ("OtherLink", "OtherLink2", "TwoEndedLink", "DuckLink", "OtherLink~")


def kind_of(link) -> str:
    """'D', 'U' or 'O' -- by class only (issubclass), as documented."""
    if isinstance(link, DirectedEdge):
        return "D"
    if isinstance(link, UnDirectedEdge):
        return "U"
    return "O"


# ---------------------------------------------------------------------------
# importable filter functions (identity matters: the cache key holds them)
# All are pure functions of immutable data: the link's class / a tag set at
# construction and never changed / the vertex's construction index.
# ---------------------------------------------------------------------------


def f_accept(e, v):
    return True


def f_reject(e, v):
    return False


def f_even_vertex(e, v):
    return getattr(v, "idx", 0) % 2 == 0


def f_tagged_edge(e, v):
    return getattr(e, "tag", 0) % 2 == 0


def f_not_directed(e, v):
    return not isinstance(e, DirectedEdge)


def f_low_vertex(e, v):
    return getattr(v, "idx", 0) < 3


def f_tag_mod3_value(e, v):
    """Answers with a number (0, 1, 2), not a bool: what counts is its truth value."""
    return getattr(e, "tag", 0) % 3


def f_vertex_itself(e, v):
    """Answers with the vertex (or None): truthy unless the vertex itself is falsy."""
    return v if getattr(v, "idx", 0) % 4 else None


def f_defaulted_third_parameter(e, v, want=1):
    """The neighbors()-style filter with one more, defaulted parameter."""
    return getattr(e, "tag", 0) % 2 == want


def _at_least(n):
    """Closure factory: the returned functions share ONE code object but are different filters."""

    def at_least(e, v):
        return getattr(v, "idx", 0) >= n

    return at_least


f_min1 = _at_least(1)
f_min3 = _at_least(3)


class TagMod:
    """Callable-by-bound-method filters: same function, different bound state."""

    def __init__(self, m):
        self.m = m

    def ok(self, e, v):
        return getattr(e, "tag", 0) % self.m == 0


f_tagmod2 = TagMod(2).ok
f_tagmod3 = TagMod(3).ok


class FalsyCallable:
    """
    A filter that is a callable *object* whose truth value is False (it looks
    like an empty container).  "No filter" must be decided by `is None`, never
    by truthiness.
    """

    def __init__(self, m):
        self.m = m

    def __len__(self):
        return 0

    def __call__(self, e, v=None):
        return getattr(e, "tag", 0) % self.m == 1


f_falsy_callable = FalsyCallable(2)
f_partial = functools.partial(_at_least(2))

def f_reentrant(e, v):
    """Pure, but runs a nested recursive traversal while the outer traversal is in progress."""
    from edgegraph.traversal import depthfirst

    try:
        seen = depthfirst.dft_recursive(None, v, direction_sensitive=1, unknown_handling=1)
    except RecursionError:  # pragma: no cover
        return True
    return len(seen) >= 1 and getattr(e, "tag", 0) % 4 != 3


def f_mutual(e, w):
    """
    Pure in (edge, other end), but decides by QUERYING THE SAME VERTEX that is being queried, with other arguments:
    "w is a neighbour of v that also points back at v".
    """
    from edgegraph.traversal import helpers

    v = e.other(w)
    if v is None:
        return True
    try:
        back = helpers.neighbors(v, 2, 1, None)
    except Exception:  # noqa: BLE001 - a degenerate edge elsewhere at v: no opinion
        return True
    return any(x is w for x in back) or getattr(e, "tag", 0) % 2 == 0


class FreshMin:
    """
    A callable filter OBJECT that the workload creates anew for one query and drops afterwards (so the next
    one is likely to be allocated at the same address).  Equal parameters do not make two of them the same filter.
    """

    def __init__(self, n):
        self.n = n

    def __call__(self, e, v):
        return getattr(v, "idx", 0) >= self.n


class UnhashableFilter:
    """A well-behaved callable that defines __eq__ without __hash__ (a plain dataclass would do)."""

    __hash__ = None

    def __init__(self, m):
        self.m = m

    def __eq__(self, other):
        return isinstance(other, UnhashableFilter) and other.m == self.m

    def __call__(self, e, v=None):
        return getattr(e, "tag", 0) % self.m != 1


def nb_filter(name):
    """Resolve a filter name; 'fresh:<n>' builds a new short-lived object on every call."""
    if isinstance(name, str) and name.startswith("fresh:"):
        return FreshMin(int(name.split(":")[1]))
    return NB_FILTERS[name]


NB_FILTERS = {
    "none": None,
    "accept": f_accept,
    "reject": f_reject,
    "even_vertex": f_even_vertex,
    "tagged_edge": f_tagged_edge,
    "not_directed": f_not_directed,
    "low_vertex": f_low_vertex,
    "min1": f_min1,
    "min3": f_min3,
    "tagmod2": f_tagmod2,
    "tagmod3": f_tagmod3,
    "falsy_callable": f_falsy_callable,
    "partial": f_partial,
    "reentrant": f_reentrant,
    "int_valued": f_tag_mod3_value,
    "object_valued": f_vertex_itself,
    "defaulted_param": f_defaulted_third_parameter,
    "mutual": f_mutual,
}


def g_accept(e):
    return True


def g_reject(e):
    return False


def g_tagged_edge(e):
    return getattr(e, "tag", 0) % 2 == 0


def g_not_directed(e):
    return not isinstance(e, DirectedEdge)


g_falsy_callable = FalsyCallable(2)


def g_defaulted_second_parameter(e, want=0):
    """A one-argument filter with a second, defaulted parameter (the loop-capture idiom `lambda e, want=colour:`)."""
    return getattr(e, "tag", 0) % 2 == want



def g_tag_mod3_value(e):
    return getattr(e, "tag", 0) % 3


FL_FILTERS = {
    "falsy_callable": g_falsy_callable,
    "none": None,
    "accept": g_accept,
    "reject": g_reject,
    "tagged_edge": g_tagged_edge,
    "not_directed": g_not_directed,
    "int_valued": g_tag_mod3_value,
    "defaulted_param": g_defaulted_second_parameter,
    "partial_with_keyword": functools.partial(g_defaulted_second_parameter, want=1),
}


def r_accept(v):
    return True


def r_even(v):
    return getattr(v, "idx", 0) % 2 == 0


def r_reject(v):
    return False


def r_idx_mod3_value(v):
    return getattr(v, "idx", 0) % 3


RES_FILTERS = {"none": None, "accept": r_accept, "even": r_even, "reject": r_reject, "int_valued": r_idx_mod3_value}
