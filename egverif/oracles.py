"""
E4: pure-query oracles written from the property statements.

* decision table for neighbors() / find_links()
* independent reference traversals
* logical expansion bound (non-termination is decided on steps, not time)
"""

from __future__ import annotations

from egverif import zoo

FORWARD, ANY, BACKWARD = 0, 1, 2
NONNEIGHBOR, NEIGHBOR, ERROR = 0, 1, 2
# the two bools are other spellings of 0 and 1 (False == DIR_SENS_FORWARD, True == DIR_SENS_ANY): same value, same
# hash, different type - callers do pass them (the repository's own tests call neighbors(..., True))
DIRS = {"FORWARD": FORWARD, "ANY": ANY, "BACKWARD": BACKWARD, "FALSE": False, "TRUE": True}
DIR_NAMES = ("FORWARD", "ANY", "BACKWARD")
UNKS = {"NONNEIGHBOR": NONNEIGHBOR, "NEIGHBOR": NEIGHBOR, "ERROR": ERROR}


class Raises:
    """Expected outcome 'raises exc' (optionally: or returns alt)."""

    def __init__(self, exc, alt=None, has_alt=False):
        self.exc = exc
        self.alt = alt
        self.has_alt = has_alt

    def __repr__(self):
        return f"Raises({self.exc.__name__}" + (f" | {self.alt}" if self.has_alt else "") + ")"


def ends(link):
    vs = link.vertices
    if len(vs) != 2:
        return None
    return vs[0], vs[1]


def table_neighbors(v, direction, unknown, filt):
    """
    Expected result of neighbors(v, direction, unknown, filt) from the observed
    v.links / type(l) / ends.  Returns a list, or Raises(NotImplementedError).
    Only complete two-ended links are in the domain.
    """
    out = []
    saw_unknown_error = False
    all_unknown_rejected = True
    for l in v.links:
        a, b = ends(l)
        other = b if a is v else a
        kind = zoo.kind_of(l)
        if direction == ANY:
            inc = True
        elif kind == "U":
            inc = True
        elif kind == "D":
            inc = (a is v) if direction == FORWARD else (b is v)
        else:
            if unknown == NONNEIGHBOR:
                inc = False
            elif unknown == NEIGHBOR:
                inc = True
            else:
                saw_unknown_error = True
                if filt is None or filt(l, other):
                    all_unknown_rejected = False
                continue
        if inc and (filt is None or filt(l, other)):
            out.append(other)
    if saw_unknown_error:
        # statement: NotImplementedError.  Permissive: if the filter rejects
        # every unknown link the filtered answer is accepted too (DESIGN 3b).
        if filt is not None and all_unknown_rejected:
            return Raises(NotImplementedError, alt=out, has_alt=True)
        return Raises(NotImplementedError)
    return out


def table_find_links(a, b, direction_sensitive, unknown, filt):
    """Expected result set of find_links(a, b, ...), or Raises."""
    out = []
    saw_unknown_error = False
    all_unknown_rejected = True
    for l in a.links:
        e = ends(l)
        if e is None:
            continue
        x, y = e
        # joins a and b?
        if a is b:
            if not (x is a and y is a):
                continue
        else:
            if not ((x is a and y is b) or (x is b and y is a)):
                continue
        kind = zoo.kind_of(l)
        if not direction_sensitive:
            inc = True
        elif kind == "U":
            inc = True
        elif kind == "D":
            inc = x is a and y is b
        else:
            if unknown == NONNEIGHBOR:
                inc = False
            elif unknown == NEIGHBOR:
                inc = True
            else:
                saw_unknown_error = True
                if filt is None or filt(l):
                    all_unknown_rejected = False
                continue
        if inc and (filt is None or filt(l)):
            if not any(l is o for o in out):
                out.append(l)
    if saw_unknown_error:
        if filt is not None and all_unknown_rejected:
            return Raises(NotImplementedError, alt=out, has_alt=True)
        return Raises(NotImplementedError)
    return out


def outcome(fn, *a, **kw):
    """Call fn; return ('ok', value) or ('exc', type)."""
    try:
        return ("ok", fn(*a, **kw))
    except ExpansionBound:
        raise
    except Exception as exc:  # noqa
        return ("exc", type(exc))


def same_identities(xs, ys) -> bool:
    return len(xs) == len(ys) and all(x is y for x, y in zip(xs, ys))


def same_identity_set(xs, ys) -> bool:
    xi = sorted(id(x) for x in xs)
    yi = sorted(id(y) for y in ys)
    return xi == yi and len(set(xi)) == len(xi)


def matches(expected, got) -> bool:
    """Compare an outcome with a table expectation (ordered list)."""
    if isinstance(expected, Raises):
        if got[0] == "exc":
            return got[1] is expected.exc
        return expected.has_alt and same_identities(expected.alt, got[1])
    return got[0] == "ok" and isinstance(got[1], list) and same_identities(expected, got[1])


def matches_set(expected, got) -> bool:
    if isinstance(expected, Raises):
        if got[0] == "exc":
            return got[1] is expected.exc
        return expected.has_alt and same_identity_set(expected.alt, list(got[1]))
    return got[0] == "ok" and same_identity_set(expected, list(got[1]))


# ---------------------------------------------------------------------------
# reference traversals over an adjacency function
# ---------------------------------------------------------------------------


class IdSet:
    """Identity set (vertex classes are not required to be hashable-by-id)."""

    def __init__(self):
        self.d = {}

    def add(self, x):
        self.d[id(x)] = x

    def __contains__(self, x):
        return id(x) in self.d

    def __len__(self):
        return len(self.d)


def member_test(uni):
    if uni is None:
        return lambda v: True
    ids = {id(v) for v in uni.vertices}
    return lambda v: id(v) in ids


def ref_closure(start, adj, inuni):
    """Reachable set (list in arbitrary deterministic order)."""
    seen = IdSet()
    seen.add(start)
    work = [start]
    out = [start]
    while work:
        u = work.pop()
        for w in adj(u):
            if inuni(w) and w not in seen:
                seen.add(w)
                out.append(w)
                work.append(w)
    return out


def ref_bfs(start, adj, inuni):
    """Level-synchronous BFS; returns (order, dist-by-id)."""
    seen = IdSet()
    seen.add(start)
    order = [start]
    dist = {id(start): 0}
    frontier = [start]
    d = 0
    while frontier:
        d += 1
        nxt = []
        for u in frontier:
            for w in adj(u):
                if inuni(w) and w not in seen:
                    seen.add(w)
                    dist[id(w)] = d
                    order.append(w)
                    nxt.append(w)
        frontier = nxt
    return order, dist


def ref_dfs_preorder(start, adj, inuni, reverse=False):
    """Pre-order DFS with explicit iterators (no recursion)."""
    seen = IdSet()
    seen.add(start)
    order = [start]

    def it(v):
        n = adj(v)
        return iter(list(reversed(n)) if reverse else list(n))

    stack = [it(start)]
    while stack:
        try:
            w = next(stack[-1])
        except StopIteration:
            stack.pop()
            continue
        if inuni(w) and w not in seen:
            seen.add(w)
            order.append(w)
            stack.append(it(w))
    return order


# ---------------------------------------------------------------------------
# logical expansion bound
# ---------------------------------------------------------------------------


class ExpansionBound(BaseException):
    pass


class NeighborCounter:
    """
    Wraps edgegraph.traversal.helpers.neighbors with a call counter; raises
    ExpansionBound when a traversal expands more than `limit` vertices.
    """

    def __init__(self):
        from edgegraph.traversal import helpers

        self.helpers = helpers
        self.real = helpers.neighbors
        self.calls = 0
        self.limit = None
        self.depth = 0

    def __enter__(self):
        def counted(*a, **kw):
            # only outermost calls are expansions of the traversal under test: a (pure) filter may itself run
            # a nested traversal, whose neighbors() calls must not be charged to the outer one
            self.depth += 1
            try:
                if self.depth == 1:
                    self.calls += 1
                    if self.limit is not None and self.calls > self.limit:
                        raise ExpansionBound()
                return self.real(*a, **kw)
            finally:
                self.depth -= 1

        counted.__wrapped__ = self.real
        self.helpers.neighbors = counted
        return self

    def arm(self, limit):
        self.calls = 0
        self.depth = 0
        self.limit = limit

    def disarm(self):
        self.limit = None

    def __exit__(self, *exc):
        self.helpers.neighbors = self.real
        return False
