"""
E1: trace driver.  A tiny JSON-able op language over a named object pool,
executed one op at a time against the real library at the client boundary.

op = [kind, arg, ...]; objects are referred to by pool name ("V0", "E1", "U0",
"W0" ...), None stays None.  An op that refers to a name that does not exist
(any more) is skipped -- this is what makes delta-debugging of histories
trivial.  A history is its own replay file.
"""

from __future__ import annotations

from edgegraph.builder import adjlist, adjmatrix, explicit
from edgegraph.output import plaintext
from edgegraph.structure import Link, Universe, Vertex
from edgegraph.structure.universe import UniverseLaws
from edgegraph.traversal import breadthfirst, depthfirst, helpers

from egverif import zoo
from egverif.oracles import DIRS, UNKS

SKIP = ("skip", None)


class NotAVertex:
    """Ill-typed stand-in for constructor arguments."""


LAW_KWARGS = [
    {},
    {"mixed_links": True, "cycles": False},
    {"multipath": False, "multiverse": True},
    {"edge_whitelist": "WL"},
]


def make_whitelist():
    from edgegraph.structure import DirectedEdge, UnDirectedEdge

    return {Vertex: {Vertex: DirectedEdge, Universe: UnDirectedEdge}, Universe: {Vertex: UnDirectedEdge}}


TRAVERSALS = {
    "bft": breadthfirst.bft,
    "dft_recursive": depthfirst.dft_recursive,
    "dft_iterative": depthfirst.dft_iterative,
    "ibft": lambda *a, **k: list(breadthfirst.ibft(*a, **k)),
    "idft_recursive": lambda *a, **k: list(depthfirst.idft_recursive(*a, **k)),
    "idft_iterative": lambda *a, **k: list(depthfirst.idft_iterative(*a, **k)),
}
SEARCHES = {
    "bfs": breadthfirst.bfs,
    "dfs_recursive": depthfirst.dfs_recursive,
    "dfs_iterative": depthfirst.dfs_iterative,
}


class Pool:
    def __init__(self):
        self.objs: dict[str, object] = {}
        self.by_id: dict[int, str] = {}
        self.counter = 0
        self.whitelists: dict[str, dict] = {}
        # while True the driver itself reads nothing back from the objects it creates (unobserved bursts)
        self.blind = False

    def add(self, name, obj):
        self.objs[name] = obj
        self.by_id[id(obj)] = name

    def name(self, obj):
        if obj is None:
            return None
        n = self.by_id.get(id(obj))
        if n is not None and self.objs.get(n) is obj:
            return n
        return f"?{type(obj).__name__}"

    def names(self, seq):
        return [self.name(x) for x in seq]

    def canon(self, val):
        """Canonicalise a return value to pool names."""
        if val is None or isinstance(val, (bool, int, float, str)):
            return val
        if isinstance(val, (Vertex, Link, UniverseLaws)):
            return self.name(val)
        if isinstance(val, (list, tuple)):
            return [self.canon(x) for x in val]
        if isinstance(val, (set, frozenset)):
            return {"set": sorted(str(self.canon(x)) for x in val)}
        return f"?{type(val).__name__}"

    def get(self, name):
        return self.objs[name]

    def has(self, *names):
        return all(n is None or n in self.objs for n in names)

    def of_kind(self, prefix):
        return [n for n in self.objs if n.startswith(prefix)]

    def rebind(self, mapping: dict[str, object]):
        """Replace the pool's objects (after a pickle round trip)."""
        self.objs = dict(mapping)
        self.by_id = {id(o): n for n, o in mapping.items()}


def _resolve(pool, names):
    return [None if n is None else pool.get(n) for n in names]


def execute(pool: Pool, op) -> tuple:
    """
    Execute one op.  Returns ("ok", canonical result) / ("exc", ExcName) / SKIP.
    Newly created objects are registered under the name carried by the op.
    """
    kind = op[0]
    try:
        fn = _OPS[kind]
    except KeyError:
        raise ValueError(f"unknown op {op}")
    return fn(pool, op)


def _wrap(pool, thunk, register=None):
    try:
        val = thunk()
    except Exception as exc:  # noqa: BLE001 - the exception type is the observation
        return ("exc", type(exc).__name__)
    if register is not None and val is not None and pool.name(val).startswith("?"):
        pool.add(register, val)
    return ("ok", pool.canon(val))


# ---- constructors ------------------------------------------------------------


def _as_container(items, kind):
    """Constructor arguments are documented as iterables: hand them over as list / tuple / generator / iterator."""
    if kind == "tuple":
        return tuple(items)
    if kind == "gen":
        return (x for x in items)
    if kind == "iter":
        return iter(list(items))
    return list(items)


def _mkv(pool, op):
    _, name, cname, links, unis = op[:5]
    ckind = op[5] if len(op) > 5 else "list"
    uid = op[6] if len(op) > 6 else None
    if not pool.has(*links) or not pool.has(*unis) or name in pool.objs:
        return SKIP
    cls = zoo.VERTEX_CLASSES[cname]
    ls, us = _resolve(pool, links), _resolve(pool, unis)
    idx = int(name[1:]) if name[1:].isdigit() else 0

    def t():
        kw = {"attributes": {"idx": idx}}
        if uid is not None:
            kw["uid"] = uid  # user-assigned uid: nothing makes uids unique
        # an EMPTY container is passed explicitly as often as it is left out ("no links yet" is not "links=None")
        explicit_empty = ckind != "list" or idx % 2 == 0
        if links or explicit_empty:
            kw["links"] = _as_container(ls, ckind)
        if unis or (explicit_empty and idx % 3 != 1):
            kw["universes"] = _as_container(us, ckind)
        return cls(**kw)

    return _wrap(pool, t, register=name)


def _mku(pool, op):
    _, name, verts, laws = op[:4]
    ckind = op[4] if len(op) > 4 else "list"
    if not pool.has(*verts) or not pool.has(laws) or name in pool.objs:
        return SKIP
    vs = _resolve(pool, verts)
    idx = 100 + (int(name[1:]) if name[1:].isdigit() else 0)

    def t():
        kw = {"attributes": {"idx": idx}}
        if verts or ckind != "list" or idx % 2 == 0:
            kw["vertices"] = _as_container(vs, ckind)
        if laws is not None:
            kw["laws"] = pool.get(laws)
        elif idx % 5 == 1:
            # laws are declarative: a universe whose (own, fresh) law set forbids everything holds what it is given
            kw["laws"] = UniverseLaws(mixed_links=False, cycles=False, multipath=False, multiverse=False)
        if idx % 2 == 0:
            kw["uid"] = 424242  # user-assigned uid: nothing makes uids unique, several universes share this one
        # (every third universe is an instance of a subclass: plain, without overrides - or one that is falsy)
        return (Universe, zoo.World, Universe, zoo.FalsyUniverse, Universe, zoo.World)[idx % 6](**kw)

    res = _wrap(pool, t, register=name)
    if res[0] == "ok" and not pool.blind:
        sync_auto_laws(pool)
    return res


def sync_auto_laws(pool):
    """Give the law set a universe created for itself a pool name (this READS universe.laws)."""
    for name in [n for n, o in pool.objs.items() if isinstance(o, Universe)]:
        l = pool.objs[name].laws
        if l is not None and pool.name(l).startswith("?"):
            pool.add("W_" + name, l)


def _mke(pool, op):
    _, name, cname, a, b = op
    ill = {"!obj": NotAVertex(), "!int": 7, "!link": None}
    if name in pool.objs:
        return SKIP
    args = []
    for x in (a, b):
        if isinstance(x, str) and x.startswith("!"):
            if x == "!link":
                ls = pool.of_kind("E")
                if not ls:
                    return SKIP
                args.append(pool.get(ls[0]))
            else:
                args.append(ill[x])
        else:
            if not pool.has(x):
                return SKIP
            args.append(None if x is None else pool.get(x))
    cls = zoo.EDGE_CLASSES[cname]
    tag = int(name[1:]) if name[1:].isdigit() else 0
    return _wrap(pool, lambda: cls(args[0], args[1], attributes={"tag": tag, "eidx": tag}), register=name)


def _mkl(pool, op):
    _, name, verts = op[:3]
    ckind = op[3] if len(op) > 3 else "list"
    if not pool.has(*verts) or name in pool.objs:
        return SKIP
    vs = _resolve(pool, verts)
    return _wrap(pool, lambda: zoo.MultiLink(vertices=_as_container(vs, ckind), attributes={"tag": 0}), register=name)


def _mkw(pool, op):
    _, name, ki = op
    if name in pool.objs:
        return SKIP
    kw = dict(LAW_KWARGS[ki])
    if kw.get("edge_whitelist") == "WL":
        wl = make_whitelist()
        pool.whitelists[name] = wl
        kw["edge_whitelist"] = wl
    return _wrap(pool, lambda: UniverseLaws(**kw), register=name)


# ---- structure mutators --------------------------------------------------------


def _setv(which):
    def f(pool, op):
        _, e, x = op
        if not pool.has(e, x):
            return SKIP
        link = pool.get(e)
        new = None if x is None else pool.get(x)

        # three spellings of the same assignment (e.v1 = x is setattr; the item protocol e["v1"] = x is documented
        # to do the same); which one is used is a function of the op's content, so replays and shrinking agree
        spelling = sum(map(ord, f"{e}{x}{which}")) % 3

        def t():
            if spelling == 0:
                setattr(link, which, new)
            elif spelling == 1:
                link[which] = new
            else:
                type(link).__setattr__(link, which, new)

        return _wrap(pool, t)

    return f


def _two(method_owner_first):
    """ops of the form [kind, a, b] calling a.<method>(b)."""

    def mk(method):
        def f(pool, op):
            _, a, b = op
            if not pool.has(a, b) or a is None:
                return SKIP
            oa = pool.get(a)
            ob = None if b is None else pool.get(b)
            return _wrap(pool, lambda: getattr(oa, method)(ob))

        return f

    return mk


_m = _two(True)


def _link(pool, op):
    _, fn, a, cname, b, dontdup, name = op
    if not pool.has(a, b) or name in pool.objs:
        return SKIP
    va, vb = pool.get(a), pool.get(b)
    if fn == "from_to":
        t = lambda: explicit.link_from_to(va, zoo.EDGE_CLASSES[cname], vb, dontdup=dontdup)  # noqa: E731
    elif fn == "directed":
        t = lambda: explicit.link_directed(va, vb, dontdup=dontdup)  # noqa: E731
    else:
        t = lambda: explicit.link_undirected(va, vb, dontdup=dontdup)  # noqa: E731
    res = _wrap(pool, t, register=name)
    if res[0] == "ok" and name in pool.objs:
        l = pool.get(name)
        try:
            if not hasattr(l, "tag"):
                l.tag = int(name[1:]) if name[1:].isdigit() else 0
        except Exception:  # noqa: BLE001
            pass
    return res


def _unlink(pool, op):
    _, a, b, destroy = op
    if not pool.has(a, b):
        return SKIP
    va, vb = pool.get(a), pool.get(b)
    return _wrap(pool, lambda: explicit.unlink(va, vb, destroy=destroy))


def _set_laws(pool, op):
    _, u, w = op
    if not pool.has(u, w):
        return SKIP
    uu = pool.get(u)
    ww = None if w is None else pool.get(w)

    def t():
        uu.laws = ww

    return _wrap(pool, t)


def _set_applies(pool, op):
    _, w, u = op
    if not pool.has(u, w):
        return SKIP
    ww = pool.get(w)
    uu = None if u is None else pool.get(u)

    def t():
        ww.applies_to = uu

    return _wrap(pool, t)


def _w_file(pool, op):
    """A law set is a BaseObject: it can be FILED under a universe (its own `universes` list) without governing it."""
    _, w, u = op
    if not pool.has(u, w):
        return SKIP
    ww, uu = pool.get(w), pool.get(u)
    return _wrap(pool, lambda: ww.add_to_universe(uu))


def _adjdict(pool, op):
    _, name, cname, adj = op  # adj: [[key, [values...]], ...]
    names = [k for k, _ in adj] + [v for _, vs in adj for v in vs]
    if not pool.has(*names) or name in pool.objs:
        return SKIP
    d = {}
    for k, vs in adj:
        d[pool.get(k)] = [pool.get(v) for v in vs]
    before = {id(l) for v in pool.objs.values() if isinstance(v, Vertex) for l in v.links}
    res = _wrap(pool, lambda: adjlist.load_adj_dict(d, zoo.EDGE_CLASSES[cname]), register=name)
    _register_new_links(pool, before, name)
    return res


def _adjmatrix(pool, op):
    _, name, cname, verts, matrix = op
    if not pool.has(*verts) or name in pool.objs:
        return SKIP
    vs = _resolve(pool, verts)
    before = {id(l) for v in pool.objs.values() if isinstance(v, Vertex) for l in v.links}
    res = _wrap(pool, lambda: adjmatrix.load_adj_matrix(matrix, vs, zoo.EDGE_CLASSES[cname]), register=name)
    _register_new_links(pool, before, name)
    return res


def _register_new_links(pool, before, uname):
    if uname in pool.objs:
        u = pool.get(uname)
        if u.laws is not None and pool.name(u.laws).startswith("?"):
            pool.add("W_" + uname, u.laws)
    k = 0
    for vname in list(pool.objs):
        v = pool.objs[vname]
        if not isinstance(v, Vertex):
            continue
        for l in v.links:
            if id(l) not in before and pool.name(l).startswith("?"):
                pool.add(f"E_{uname}_{k}", l)
                try:
                    l.tag = k
                except Exception:  # noqa: BLE001
                    pass
                k += 1


# ---- queries -----------------------------------------------------------------


def _nb(pool, op):
    _, v, d, u, f = op
    if not pool.has(v):
        return SKIP
    vv = pool.get(v)
    return _wrap(pool, lambda: helpers.neighbors(vv, DIRS[d], UNKS[u], zoo.nb_filter(f)))


def _fl(pool, op):
    _, a, b, ds, u, f = op
    if not pool.has(a, b):
        return SKIP
    va, vb = pool.get(a), pool.get(b)
    return _wrap(pool, lambda: helpers.find_links(va, vb, ds, UNKS[u], zoo.FL_FILTERS[f]))


def _trav(pool, op):
    _, fn, u, s, d, unk, via, res = op
    if not pool.has(u, s):
        return SKIP
    uu = None if u is None else pool.get(u)
    ss = pool.get(s)
    return _wrap(pool, lambda: TRAVERSALS[fn](uu, ss, direction_sensitive=DIRS[d], unknown_handling=UNKS[unk],
                                              ff_via=zoo.nb_filter(via), ff_result=zoo.RES_FILTERS[res]))


def _search(pool, op):
    _, fn, u, s, attr, val = op
    if not pool.has(u, s):
        return SKIP
    uu = None if u is None else pool.get(u)
    ss = pool.get(s)
    return _wrap(pool, lambda: SEARCHES[fn](uu, ss, attr, val))


def _render_idx(v):
    return str(getattr(v, "idx", "?"))


def _sort_neg_idx(v):
    return -getattr(v, "idx", 0)


def _render(pool, op):
    # ["render", u] or ["render", u, how]: plain text with / without a sort key, PlantUML source, a PyVis network
    u = op[1]
    how = op[2] if len(op) > 2 else "plain"
    if not pool.has(u):
        return SKIP
    uu = pool.get(u)
    if how == "sorted":
        return _wrap(pool, lambda: plaintext.basic_render(uu, rfunc=_render_idx, sort=_sort_neg_idx))
    if how == "pyvis":
        from edgegraph.output import pyvis as egpyvis

        return _wrap(pool, lambda: len(egpyvis.make_pyvis_net(uu, rvfunc=_render_idx).get_nodes()))
    if how == "plantuml":
        import copy

        from edgegraph.output import plantuml

        return _wrap(pool, lambda: plantuml.render_to_plantuml_src(uu, copy.deepcopy(plantuml.PLANTUML_RENDER_OPTIONS)) is not None)
    return _wrap(pool, lambda: plaintext.basic_render(uu, rfunc=_render_idx))


def _other(pool, op):
    # ["other", edge, vertex-or-None]: a call with a return value and no effect
    _, e, v = op
    if not pool.has(e) or (v is not None and not pool.has(v)):
        return SKIP
    eo = pool.get(e)
    if not isinstance(eo, zoo.TwoEndedLink):
        return SKIP
    vo = None if v is None else pool.get(v)
    return _wrap(pool, lambda: eo.other(vo))


def _cache(pool, op):
    Vertex.NEIGHBOR_CACHING = bool(op[1])
    return ("ok", None)


_OPS = {
    "mkv": _mkv,
    "mku": _mku,
    "mke": _mke,
    "mkl": _mkl,
    "mkw": _mkw,
    "setv1": _setv("v1"),
    "setv2": _setv("v2"),
    "v_add_link": _m("add_to_link"),
    "v_rm_link": _m("remove_from_link"),
    "l_add_vertex": _m("add_vertex"),
    "l_unlink_from": _m("unlink_from"),
    "link": _link,
    "unlink": _unlink,
    "u_add": _m("add_vertex"),
    "u_rm": _m("remove_vertex"),
    "v_add_uni": _m("add_to_universe"),
    "v_rm_uni": _m("remove_from_universe"),
    "set_laws": _set_laws,
    "set_applies": _set_applies,
    "w_file": _w_file,
    "adjdict": _adjdict,
    "adjmatrix": _adjmatrix,
    "nb": _nb,
    "fl": _fl,
    "trav": _trav,
    "search": _search,
    "render": _render,
    "other": _other,
    "cache": _cache,
}

MUTATORS = {"mkv", "mku", "mke", "mkl", "mkw", "setv1", "setv2", "v_add_link", "v_rm_link", "l_add_vertex",
            "l_unlink_from", "link", "unlink", "u_add", "u_rm", "v_add_uni", "v_rm_uni", "set_laws", "set_applies",
            "w_file", "adjdict", "adjmatrix"}
QUERIES = {"nb", "fl", "trav", "search", "render", "other"}
