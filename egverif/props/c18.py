"""
C18 -- true singletons: at most one live instance per class between clears.
"""

from __future__ import annotations

import gc
import random
import weakref

from edgegraph.structure import Vertex, singleton

from egverif import oracles
from egverif.common import ddmin

RULE = (
    "cases = histories of 20-80 calls (construct with arbitrary positional/keyword arguments, "
    "clear_true_singleton(cls), clear_true_singleton()) over 12 classes: two flat classes, a 3-level subclass chain, a "
    "class whose metaclass derives from TrueSingleton, a Vertex subclass, classes with falsy instances, and classes "
    "whose __init__ constructs another singleton / clears all singletons / clears its own class.  A lock-step model {class -> instance} "
    "with per-class __init__ logs judges every call; after every call every class's live instance is re-read.  "
    "Non-trivial = history with >=1 repeated construction, >=1 clear and >=2 classes; distinct = distinct op sequences."
)

INIT_LOG = []
CLASS_NAMES = ["FlatA", "FlatB", "Top", "Mid", "Leaf", "Derived", "SVert", "EmptyReg", "NoBool", "Nester", "Resetter",
               "SelfResetter", "Backend", "Shadowy", "Plugin"]
class ArrayLike:
    """An argument object with numpy-style comparison: == answers element-wise, and the answer has no truth value."""

    def __init__(self, *items):
        self.items = items

    def __eq__(self, other):
        return ArrayLike(*[a == b for a, b in zip(self.items, getattr(other, "items", ()))])

    def __ne__(self, other):
        return ArrayLike(*[a != b for a, b in zip(self.items, getattr(other, "items", ()))])

    __hash__ = None

    def __bool__(self):
        raise ValueError("The truth value of an array with more than one element is ambiguous")


class Incomparable:
    """An argument object that refuses to be compared at all."""

    def __eq__(self, other):
        raise TypeError("not comparable")

    __hash__ = None


ARGS = [(), (1,), (2, 3), ("x",), (None,), ([1, 2],), (0,), (False,), (ArrayLike(1, 2),), (ArrayLike(3, 4),), (Incomparable(),)]
KWARGS = [{}, {"a": 1}, {"b": [1]}, {"a": None, "b": 2},
          # keyword names an implementation might use for its own parameters
          {"key": "x"}, {"instances": 1, "factory": 2}, {"args": 1, "kwargs": 2}, {"name": "n", "obj": 0},
          {"a": ArrayLike(1, 2)}, {"a": ArrayLike(5, 6)}, {"b": Incomparable()}]


INITIAL_LIVE = {}


def make_classes():
    del INIT_LOG[:]
    # start from a clean table whatever ran before in this process
    singleton.clear_true_singleton()
    INITIAL_LIVE.clear()

    class Base:
        def __init__(self, *args, **kwargs):
            INIT_LOG.append((type(self).__name__, id(self), args, dict(kwargs)))

    class FlatA(Base, metaclass=singleton.TrueSingleton):
        pass

    class FlatB(Base, metaclass=singleton.TrueSingleton):
        pass

    class Top(Base, metaclass=singleton.TrueSingleton):
        pass

    class Mid(Top):
        pass

    class Leaf(Mid):
        pass

    class Meta2(singleton.TrueSingleton):
        pass

    class Derived(Base, metaclass=Meta2):
        pass

    class EmptyReg(Base, metaclass=singleton.TrueSingleton):
        """Registry-like singleton whose instance is falsy (len 0)."""

        def __len__(self):
            return 0

    class NoBool(Base, metaclass=singleton.TrueSingleton):
        def __bool__(self):
            return False

    class SVert(Vertex, metaclass=singleton.TrueSingleton):
        def __init__(self, *args, **kwargs):
            INIT_LOG.append((type(self).__name__, id(self), args, dict(kwargs)))
            super().__init__()

    class Backend(Base, metaclass=singleton.TrueSingleton):
        """__new__ hands out an instance of an implementation subclass (as pathlib.Path() hands out a PosixPath)."""

        def __new__(cls, *args, **kwargs):
            if cls is Backend:
                cls = BackendImpl
            return super().__new__(cls)

    class BackendImpl(Backend):
        pass

    class Shadowy(Base, metaclass=singleton.TrueSingleton):
        """A class that happens to have class-level mappings of its own under registry-like names."""

        _instances = {}
        instances = {}
        _instance = None
        _registry = {}
        _singleton_instances = {}
        __singleton_instances = {}

    class Nester(Base, metaclass=singleton.TrueSingleton):
        """A singleton whose __init__ obtains another singleton (a service locating its registry)."""

        def __init__(self, *args, **kwargs):
            self.inner = FlatA()
            super().__init__(*args, **kwargs)

    class Resetter(Base, metaclass=singleton.TrueSingleton):
        """A singleton whose __init__ resets all singletons (an application context starting from a clean slate)."""

        def __init__(self, *args, **kwargs):
            singleton.clear_true_singleton()
            super().__init__(*args, **kwargs)

    class SelfResetter(Base, metaclass=singleton.TrueSingleton):
        """__init__ clears its own class first (drops a possible stale instance before registering itself)."""

        def __init__(self, *args, **kwargs):
            singleton.clear_true_singleton(type(self))
            super().__init__(*args, **kwargs)

    class PluginBase(Base, metaclass=singleton.TrueSingleton):
        """The plugin auto-registration idiom: every subclass is constructed once while its class statement runs."""

        registry = []

        def __init_subclass__(cls, **kwargs):
            super().__init_subclass__(**kwargs)
            PluginBase.registry.append(cls("auto"))

    class Plugin(PluginBase):
        pass

    # (the first period of Plugin began inside its own class statement: that instance is the live one)
    INITIAL_LIVE["Plugin"] = PluginBase.registry[0]
    return {c.__name__: c for c in (FlatA, FlatB, Top, Mid, Leaf, Derived, SVert, EmptyReg, NoBool, Nester, Resetter,
                                    SelfResetter, Backend, Shadowy, Plugin)}


def _construct(k, cls, args, kwargs):
    """Every fourth construction is made from inside an exception handler of the caller (an error path)."""
    if k % 4 != 2:
        return oracles.outcome(cls, *args, **kwargs)
    try:
        raise LookupError("something unrelated the caller is dealing with")
    except LookupError:
        return oracles.outcome(cls, *args, **kwargs)


def _clear_all(k):
    """The documented spellings of 'clear everything': no argument, the default passed explicitly, by position or name."""
    if k % 3 == 0:
        return oracles.outcome(singleton.clear_true_singleton)
    if k % 3 == 1:
        return oracles.outcome(singleton.clear_true_singleton, None)
    return oracles.outcome(singleton.clear_true_singleton, cls=None)


def _clear_one(k, cls):
    if k % 2:
        return oracles.outcome(singleton.clear_true_singleton, cls=cls)
    return oracles.outcome(singleton.clear_true_singleton, cls)


class _Ref:
    """Model entry that does NOT keep the instance alive (the registry itself must)."""

    def __init__(self, obj):
        self.ident = id(obj)
        try:
            self.wr = weakref.ref(obj)
        except TypeError:
            self.wr = None
            self.strong = obj

    def is_same(self, obj):
        return id(obj) == self.ident and (self.wr is None or self.wr() is obj)


def run_history(ops, keep_refs=True):
    if not keep_refs:
        return run_history_norefs(ops)
    classes = make_classes()
    model = dict(INITIAL_LIVE)  # cname -> instance
    created = list(model.values())
    found = []
    repeats = clears = 0
    touched = set()

    def viol(mech, what, k):
        found.append((mech, f"op #{k} {ops[k]}: {what}"))

    for k, op in enumerate(ops):
        kind = op["op"]
        if kind == "new":
            cname = op["c"]
            touched.add(cname)
            cls = classes[cname]
            args, kwargs = ARGS[op["a"]], dict(KWARGS[op["k"]])
            n0 = len(INIT_LOG)
            res = _construct(k, cls, args, kwargs)
            if res[0] != "ok":
                viol(f"construct:raised:{res[1].__name__}", "constructor raised", k)
                break
            obj = res[1]
            ninit = len(INIT_LOG) - n0
            if cname in model:
                repeats += 1
                if obj is not model[cname]:
                    viol("construct:second_live_instance", f"{cname} already has a live instance but a different object came back", k)
                    break
                if ninit:
                    viol("construct:init_rerun", f"__init__ ran again ({ninit}x) for a live singleton", k)
                    break
            else:
                if any(obj is o for o in model.values()):
                    owner = next(c for c, o in model.items() if o is obj)
                    viol("construct:returned_other_class_instance", f"{cname}() returned the instance of {owner}", k)
                    break
                if any(obj is o for o in created):
                    viol("construct:cleared_instance_returned", f"{cname}() after a clear returned the instance from before the clear", k)
                    break
                if not isinstance(obj, cls) or (type(obj) is not cls and cname != "Backend"):
                    viol("construct:wrong_type", f"{cname}() returned a {type(obj).__name__}", k)
                    break
                want_init = 1
                if cname == "Nester" and "FlatA" not in model:
                    want_init = 2  # the nested first construction of FlatA
                if ninit != want_init or INIT_LOG[-1][2] != args or INIT_LOG[-1][3] != kwargs:
                    viol("construct:init_count_or_args", f"__init__ ran {ninit}x for a fresh period (args {args} {kwargs})", k)
                    break
                if cname == "Resetter":
                    # the reset happened while this construction was under way: everything else is cleared and
                    # the object that was then returned is the live one
                    model.clear()
                if cname == "Nester":
                    touched.add("FlatA")
                    if "FlatA" in model:
                        if obj.inner is not model["FlatA"]:
                            viol("construct:second_live_instance:from_inside_init",
                                 "FlatA has a live instance but FlatA() inside Nester.__init__ returned another object", k)
                            break
                    else:
                        if type(obj.inner) is not classes["FlatA"] or any(obj.inner is o for o in created):
                            viol("construct:wrong_type:from_inside_init", "FlatA() inside Nester.__init__ returned a foreign/old object", k)
                            break
                        model["FlatA"] = obj.inner
                        created.append(obj.inner)
                model[cname] = obj
                created.append(obj)
        elif kind == "clear":
            clears += 1
            cname = op["c"]
            res = _clear_one(k, classes[cname])
            if res[0] != "ok":
                viol(f"clear:raised:{res[1].__name__}" + ("" if cname in model else ":absent_entry"),
                     f"clear_true_singleton({cname}) raised", k)
                break
            model.pop(cname, None)
        else:
            clears += 1
            res = _clear_all(k)
            if res[0] != "ok":
                viol(f"clear_all:raised:{res[1].__name__}", "clear_true_singleton() raised", k)
                break
            model.clear()
        # observe every class that the model says is live: constructing again must return it
        # (pure observation: a live class never runs __init__ again)
        for c, inst in list(model.items()):
            n0 = len(INIT_LOG)
            again = oracles.outcome(classes[c])
            if again[0] != "ok" or again[1] is not inst or len(INIT_LOG) != n0:
                tag = "clear_hit_other_class" if kind != "new" else "construct_disturbed_other_class"
                viol(f"{tag}:{kind}", f"after this op the live instance of {c} is no longer returned", k)
                break
        if found:
            break
    return found, repeats, clears, len(touched)


def run_history_norefs(ops):
    """
    Same judgement, but the harness drops every returned instance immediately (as a caller doing `S(1); S(2).x`
    would) and collects garbage: the singleton must stay alive on its own, __init__ must not run again.
    """
    classes = make_classes()
    ops = [o for o in ops if o.get("c") not in ("Nester", "Resetter", "SelfResetter")]
    model = {c: _Ref(o) for c, o in INITIAL_LIVE.items()}  # cname -> _Ref
    INITIAL_LIVE.clear()
    found = []
    repeats = clears = 0
    touched = set()
    for k, op in enumerate(ops):
        kind = op["op"]
        if kind == "new":
            cname = op["c"]
            touched.add(cname)
            args, kwargs = ARGS[op["a"]], dict(KWARGS[op["k"]])
            n0 = len(INIT_LOG)
            res = _construct(k, classes[cname], args, kwargs)
            if res[0] != "ok":
                found.append((f"construct:raised:{res[1].__name__}:no_strong_refs", f"op #{k} {op}: constructor raised"))
                break
            ninit = len(INIT_LOG) - n0
            if cname in model:
                repeats += 1
                same = model[cname].is_same(res[1])
                res = None
                if ninit or not same:
                    found.append(("construct:singleton_not_kept_alive_by_registry",
                                  f"op #{k} {op}: caller kept no reference to the first instance; constructing again ran "
                                  f"__init__ {ninit}x / returned {'the same' if same else 'a different'} object"))
                    break
            else:
                if ninit != 1:
                    found.append(("construct:init_count_or_args:no_strong_refs", f"op #{k} {op}: __init__ ran {ninit}x"))
                    break
                model[cname] = _Ref(res[1])
                res = None
        elif kind == "clear":
            clears += 1
            r = _clear_one(k, classes[op["c"]])
            if r[0] != "ok":
                found.append((f"clear:raised:{r[1].__name__}" + ("" if op["c"] in model else ":absent_entry"),
                              f"op #{k} {op}: clear_true_singleton({op['c']}) raised"))
                break
            model.pop(op["c"], None)
        else:
            clears += 1
            r = _clear_all(k)
            if r[0] != "ok":
                found.append((f"clear_all:raised:{r[1].__name__}", f"op #{k} {op}: clear_true_singleton() raised"))
                break
            model.clear()
        pass  # refcounting frees the dropped instance at once (no cycles in these classes)
    return found, repeats, clears, len(touched)


def gen_history(rng, nops):
    names = rng.sample(CLASS_NAMES, rng.randint(2, 4))
    if rng.random() < 0.6:
        names += ["Top", "Mid", "Leaf"]
    ops = []
    for _ in range(nops):
        r = rng.random()
        if r < 0.65:
            ops.append({"op": "new", "c": rng.choice(names), "a": rng.randrange(len(ARGS)), "k": rng.randrange(len(KWARGS))})
        elif r < 0.9:
            ops.append({"op": "clear", "c": rng.choice(names)})
        else:
            ops.append({"op": "clear_all"})
    return ops


def prelude():
    out = []
    N = lambda c, a=0, k=0: {"op": "new", "c": c, "a": a, "k": k}  # noqa
    C = lambda c: {"op": "clear", "c": c}  # noqa
    ALL = {"op": "clear_all"}
    for a, b in (("FlatA", "FlatB"), ("Top", "Mid"), ("Mid", "Top"), ("Leaf", "Top"), ("Derived", "FlatA"), ("SVert", "Mid"), ("EmptyReg", "FlatA"), ("NoBool", "EmptyReg"),
                 ("Nester", "FlatA"), ("FlatA", "Nester"), ("Resetter", "FlatA"), ("FlatB", "Resetter"), ("SelfResetter", "Top"),
                 ("Nester", "Resetter"), ("Backend", "FlatA"), ("Top", "Backend"), ("Shadowy", "FlatA"), ("Mid", "Shadowy"),
                 ("Plugin", "FlatA"), ("Top", "Plugin")):
        out.append([N(a, 1), N(b, 2, 1), N(a, 3), C(a), N(a, 2), N(b), C(b), C(b), N(b, 1), ALL, N(a), N(b), C(a), ALL, ALL,
                    N(b, 4), N(a, 5, 2), C(b), N(a), N(b)])
        out.append([C(a), N(a, 7), ALL, C(a), N(a, 6), N(a, 1)])
        out.append([N(a), ALL, N(b), N(a), C(b), N(a), N(b)])
    return out


def floors(ctx):
    q = ctx.tier == "quick"
    return {"evaluations": 5000 if q else 50000, "histories": 200 if q else 2000, "repeat_constructions": 1000,
            "clears": 500, "histories_with_subclass_chain": 50, "histories_with_falsy_instances": 50, "histories_without_strong_refs": 100,
            "histories_with_clear_or_construction_inside_init": 50}


def judge(ctx, ops, keep_refs=True):
    found, repeats, clears, ntouched = run_history(ops, keep_refs)
    if not keep_refs:
        ctx.count("histories_without_strong_refs")
    ctx.evaluated(len(ops))
    ctx.count("histories")
    ctx.count("repeat_constructions", repeats)
    ctx.count("clears", clears)
    if {"Top", "Mid", "Leaf"} & {o.get("c") for o in ops}:
        ctx.count("histories_with_subclass_chain")
    if {"EmptyReg", "NoBool"} & {o.get("c") for o in ops}:
        ctx.count("histories_with_falsy_instances")
    if keep_refs and {"Nester", "Resetter", "SelfResetter"} & {o.get("c") for o in ops if o["op"] == "new"}:
        ctx.count("histories_with_clear_or_construction_inside_init")
    if repeats and clears and ntouched >= 2:
        ctx.nontrivial(ops)
    if found and not ctx.should_shrink(found[0][0]):
        ctx.violation(found[0][0], found[0][1], {"ops": ops, "keep_refs": keep_refs})
    elif found:
        mech = found[0][0]

        def fails(sub):
            f = run_history(sub, keep_refs)[0]
            return bool(f) and f[0][0] == mech

        small = ddmin(ops, fails)
        f2 = run_history(small, keep_refs)[0]
        if not f2 or f2[0][0] != mech:
            small, f2 = ops, found
        ctx.violation(mech, f2[0][1] + f"; history: {small}", {"ops": small, "keep_refs": keep_refs})


def probe_keyword_named_cls(ctx):
    """`S(cls=...)`: 'whatever arguments are passed' includes a keyword argument that happens to be called cls."""
    classes = make_classes()
    for cname in ("FlatA", "Leaf", "Derived"):
        r1 = oracles.outcome(classes[cname], cls="x")
        r2 = oracles.outcome(classes[cname], 2, cls="y")
        ctx.evaluated()
        ctx.count("keyword_named_cls_probes")
        if r1[0] != "ok" or r2[0] != "ok" or r1[1] is not r2[1]:
            ctx.violation("construct:keyword_named_cls_rejected",
                          f"{cname}(cls='x') -> {r1[1].__name__ if r1[0] != 'ok' else 'ok'}: TrueSingleton.__call__(cls, *args, "
                          f"**kwargs) cannot be given a keyword argument named cls", {"probe": "keyword_named_cls"})
            break
    singleton.clear_true_singleton()


def run(ctx):
    rng = random.Random(ctx.seed * 2750159 + ctx.shard * 13 + 18)
    if ctx.shard == 0:
        probe_keyword_named_cls(ctx)
    quick = ctx.tier == "quick"
    for n, ops in enumerate(prelude()):
        if n % ctx.nshards == ctx.shard:
            judge(ctx, ops)
            judge(ctx, ops, keep_refs=False)
    for n in range(ctx.n(12000 if quick else 40000)):
        ops = gen_history(rng, rng.randint(20, 80))
        judge(ctx, ops, keep_refs=bool(n % 8))
        if n in (1, 70) and ctx.shard == 0:
            ctx.sample(ops[:20] + ["..."])
    singleton.clear_true_singleton()
    ctx.assumptions += ["an __init__ may construct another singleton class or call clear_true_singleton, but does not construct its own class; single-threaded",
                        "liveness is observed by constructing again with no arguments (must return the same object without running __init__)"]


def replay(ctx, case):
    if case.get("probe") == "keyword_named_cls":
        probe_keyword_named_cls(ctx)
        ctx.nontrivial("replay-a")
        ctx.nontrivial("replay-b")
        return
    judge(ctx, case["ops"], case.get("keep_refs", True))
    ctx.nontrivial("replay-a")
    ctx.nontrivial("replay-b")
