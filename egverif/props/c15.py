"""
C15 -- PyVis export: one node per member vertex, only real edges, correctly directed.
"""

from __future__ import annotations

import collections
import random

from edgegraph.output import pyvis as egpyvis
from edgegraph.structure import DirectedEdge

from egverif import graphs, oracles, trav

RULE = (
    "cases = (graph spec with a universe, rvfunc/refunc on or off); shape families and random multigraphs of all "
    "two-ended link classes with self-loops, parallel/antiparallel/mixed edges, links leaving the universe, links that "
    "list a bystander vertex besides their two ends, and vertices carrying unrelated attributes.  The returned Network is read back through get_nodes/get_node/get_edges "
    "and compared with the graph (arrowed edge counts per ordered pair, arrow-less edges backed by a non-directed "
    "link, every internal link's node pair joined).  Non-trivial = at least one internal link; distinct = distinct "
    "(graph shape, universe, callbacks)."
)


def rv(v):
    return f"n{v.idx}"


def rv_dump(v):
    """A pure label function that shows every attribute name the vertex has (as a debug label would)."""
    return f"n{v.idx}:" + ",".join(sorted(vars(v)))


def rv_markup(v):
    """Labels made of the characters that mean something to HTML / JSON / JavaScript; or not strings at all."""
    i = v.idx
    return [f"R&D <{i}>", f"a->b {i} \"q\"", f"</script>{i}", f"x<y&&y>z #{i}", i, f"tab\t{i}\nline", f"{i}%20&amp;"][i % 7]


def re_(e):
    return f"{type(e).__name__}#{e.eidx}"


def floors(ctx):
    q = ctx.tier == "quick"
    return {"evaluations": 800 if q else 8000, "edges_checked": 2000 if q else 20000, "internal_selfloops": 100,
            "graphs_with_parallel": 50, "graphs_with_mixed_kinds": 50, "links_leaving_universe": 100,
            "empty_universe": 3, "undirected_merged_pairs": 20, "universes_over_256_members": 1, "cases_with_network_kwargs": 100,
            "links_listing_a_third_vertex": 100, "graphs_with_non_default_laws": 100,
            "cases_with_markup_characters_in_labels": 100, "exports_with_a_nested_export_in_the_label_callback": 100}


NETWORK_KWARGS = [None, {"directed": True}, {"directed": False}, {"cdn_resources": "local", "directed": True, "notebook": False}]


def run_case(ctx, spec, with_funcs, nk=0):
    g = graphs.build(spec)
    case = {"spec": spec, "funcs": with_funcs, "nk": nk}
    rvf = rv_dump if with_funcs == "dump" else rv_markup if with_funcs == "markup" else rv
    if with_funcs == "nested":
        # a label callback that itself exports ANOTHER, disjoint universe (a drill-down page per node): the outer
        # export's own bookkeeping must survive the inner one, and vice versa
        outsiders = [v for v in g.verts if not any(v is m for m in g.uni.vertices)]
        if not outsiders:
            with_funcs = True
        else:
            from edgegraph.structure import Universe

            inner_uni = Universe(vertices=outsiders)
            inner_nets = []

            def rvf(v, _u=inner_uni):  # noqa: F811
                inner_nets.append(egpyvis.make_pyvis_net(_u, rvfunc=rv))
                return rv(v)

            ctx.count("exports_with_a_nested_export_in_the_label_callback")
    if with_funcs == "markup":
        ctx.count("cases_with_markup_characters_in_labels")
    kw = dict(rvfunc=rvf, refunc=re_) if with_funcs else {}
    if NETWORK_KWARGS[nk] is not None:
        kw["network_kwargs"] = dict(NETWORK_KWARGS[nk])
        ctx.count("cases_with_network_kwargs")
    res = oracles.outcome(egpyvis.make_pyvis_net, g.uni, **kw)
    ctx.evaluated()
    if res[0] != "ok":
        ctx.violation(f"raised:{res[1].__name__}", f"make_pyvis_net raised {res[1].__name__} on {spec}", case)
        return
    net = res[1]
    members = g.uni.vertices
    n = len(members)
    if n > 256:
        ctx.count("universes_over_256_members")
    if not members:
        ctx.count("empty_universe")
    ids = list(net.get_nodes())
    if ids != list(range(n)):
        ctx.violation("node_ids", f"node ids {ids} for {n} members", case)
        return
    if with_funcs:
        labels = [net.get_node(i).get("label") for i in range(n)]
        if labels != [(rv if with_funcs == "nested" else rvf)(v) for v in members]:
            ctx.violation("node_labels", f"labels {labels[:6]}, expected {[rvf(v) for v in members][:6]} (rvfunc evaluated "
                          f"on the same vertices after the export)", case)
            return
    index = {id(v): i for i, v in enumerate(members)}
    directed = collections.Counter()
    nondirected_pairs = collections.Counter()
    all_pairs = set()
    seen = set()
    internal = 0
    for v in members:
        for l in v.links:
            if id(l) in seen:
                continue
            seen.add(id(l))
            a, b = l.v1, l.v2
            if len(l.vertices) > 2:
                ctx.count("links_listing_a_third_vertex")
            if id(a) not in index or id(b) not in index:
                ctx.count("links_leaving_universe")
                continue
            internal += 1
            i, j = index[id(a)], index[id(b)]
            if i == j:
                ctx.count("internal_selfloops")
            all_pairs.add(frozenset((i, j)))
            if isinstance(l, DirectedEdge):
                directed[(i, j)] += 1
            else:
                nondirected_pairs[frozenset((i, j))] += 1
    got_directed = collections.Counter()
    joined = set()
    for e in net.get_edges():
        ctx.count("edges_checked")
        i, j = e.get("from"), e.get("to")
        if i not in range(n) or j not in range(n):
            ctx.violation("edge_to_unknown_node", f"edge {e} refers to a node that is not a member", case)
            return
        joined.add(frozenset((i, j)))
        arrows = e.get("arrows")
        if arrows:
            if arrows != "to":
                ctx.violation("arrow_style", f"edge {e} has arrows={arrows!r}", case)
                return
            got_directed[(i, j)] += 1
        else:
            if not nondirected_pairs[frozenset((i, j))]:
                what = "directed link exported without arrow" if directed[(i, j)] or directed[(j, i)] else "no such link"
                ctx.violation("arrowless_edge_without_nondirected_link" + (":directed_exists" if "directed" in what else ""),
                              f"arrow-less edge {i}--{j} but no non-directed link joins members {i},{j} ({what}); "
                              f"edges={spec['edges']} uni={spec['uni']}", case)
                return
    if got_directed != directed:
        miss = dict(directed - got_directed)
        extra = dict(got_directed - directed)
        clause = "arrowed_edges"
        if miss and extra and {(j, i) for (i, j) in miss} & set(extra):
            clause += ":reversed"
        elif miss and not extra:
            clause += ":missing" + (":selfloop" if all(i == j for i, j in miss) else "")
        elif extra and not miss:
            clause += ":extra"
        ctx.violation(clause, f"arrowed edges per ordered pair: missing {miss}, unexpected {extra}; edges={spec['edges']} "
                      f"uni={spec['uni']}", case)
        return
    unjoined = [sorted(p) for p in all_pairs if p not in joined]
    if unjoined:
        self_only = all(len(p) == 1 for p in unjoined)
        ctx.violation("internal_link_not_exported" + (":selfloop" if self_only else ""),
                      f"links between member pairs {unjoined} left no edge; edges={spec['edges']} uni={spec['uni']}", case)
        return
    for p, k in nondirected_pairs.items():
        if k > 1 or any(directed[t] for t in (tuple(sorted(p)), tuple(sorted(p))[::-1]) if len(t) == 2):
            ctx.count("undirected_merged_pairs")
    if internal:
        ctx.nontrivial(("v", trav._shape(spec), with_funcs))


def run(ctx):
    rng = random.Random(ctx.seed * 1618033 + ctx.shard * 5 + 15)
    quick = ctx.tier == "quick"
    frng = random.Random(15)
    specs = []
    for spec in graphs.family_specs(frng, sizes=(4, 7), ecls=graphs.ECLS_X, vcls=graphs.VCLS_XB):
        spec = dict(spec)
        if spec["uni"] is None:
            spec["uni"] = list(range(len(spec["verts"])))
        specs.append(spec)
    specs.append({"verts": ["Vertex", "Vertex"], "edges": [], "uni": []})
    for c in ("DirectedEdge", "UnDirectedEdge", "OtherLink", "DSubSub"):
        specs.append({"verts": ["Vertex", "VSub"], "edges": [[c, 0, 0, 0], [c, 1, 0, 1]], "uni": [0, 1]})
    # sizes around CPython's small-int cache (256/257) and beyond: indices are compared / stored per vertex
    brng = random.Random(1515)
    for nbig in (256, 257, 300, 600):
        edges = []
        for i in range(nbig):
            edges.append([brng.choice(graphs.ECLS_X), i, i, 0])          # a self-loop on every member
            edges.append([brng.choice(graphs.ECLS_X), i, (i * 7 + 1) % nbig, 1])
        specs.append({"verts": ["Vertex"] * nbig, "edges": edges, "uni": list(range(nbig))})
    n_random = ctx.n(12000 if quick else 30000)
    k = 0
    for n in range(len(specs) + n_random):
        if n < len(specs):
            if n % ctx.nshards != ctx.shard:
                continue
            spec = specs[n]
        else:
            spec = graphs.rand_spec(rng, nmax=7 if quick else 14, mmax=12 if quick else 35, ecls=graphs.ECLS_X, vcls=graphs.VCLS_XB,
                                    uni_mode="rand", self_p=0.15)
            if spec["uni"] is None:
                spec["uni"] = [i for i in range(len(spec["verts"])) if rng.random() < 0.8]
                rng.shuffle(spec["uni"])
            spec["attrs"] = {str(i): {"color": "red", "weight": i * 1.5} for i in range(len(spec["verts"])) if i % 2}
            if spec["edges"] and rng.random() < 0.3:
                # bystanders: vertices that list a link (Link.add_vertex / Vertex.add_to_link) without being an end
                spec["extra"] = [[rng.randrange(len(spec["edges"])), rng.randrange(len(spec["verts"]))]
                                 for _ in range(rng.randint(1, 3))]
                spec["extra"] = [[k_, i_] for k_, i_ in spec["extra"] if i_ not in spec["edges"][k_][1:3]]
        for f in graphs.features(spec):
            ctx.count("graphs_with_" + f)
        run_case(ctx, spec, ("dump" if n % 4 == 3 else "markup" if n % 8 == 5 else "nested" if n % 8 == 1 else True) if n % 2 else False,
                 nk=(n // 2) % len(NETWORK_KWARGS) if n % 3 == 0 else 0)
        k += 1
        if k in (4, 150) and ctx.shard == 0:
            ctx.sample({"spec": spec, "callbacks": bool(n % 2)})
    ctx.assumptions += [
        "two-ended links with both ends assigned, possibly listing further vertices that are not ends; pyvis 0.3.2 read back through get_nodes/get_node/get_edges",
        "pyvis merges an arrow-less edge into any existing edge of the same node pair, hence 'joined by at least one edge'",
    ]


def replay(ctx, case):
    run_case(ctx, case["spec"], case["funcs"], case.get("nk", 0))
    ctx.nontrivial("replay-a")
    ctx.nontrivial("replay-b")
