"""
C04 -- neighbors() obeys the direction / unknown-type / filter decision table.
"""

from __future__ import annotations

import itertools
import random

from edgegraph.structure import TwoEndedLink, Vertex
from edgegraph.traversal import helpers

from egverif import graphs, oracles, zoo
from egverif.oracles import DIRS, UNKS

RULE = (
    "cases = (graph spec, vertex, direction, unknown_handling, filter, caching flag); "
    "part 1 enumerates every one- and two-link configuration at one vertex "
    "(8 link classes x {origin,destination,self-loop} x 3 directions x 3 unknown modes x 7 filters), "
    "part 2 random multigraphs with all link kinds mixed.  A case is non-trivial when the vertex "
    "has >=1 link; distinct = distinct (link-kind/position multiset at the vertex, direction, unknown, filter "
    "verdict pattern) rows."
)

EDGE_ONLY_FILTERS = ("none", "accept", "reject", "tagged_edge", "not_directed")


def floors(ctx):
    if ctx.tier == "quick":
        return {"rows_single_link": 500, "evaluations": 5000, "corollary_pairs": 500, "equal_but_distinct_end_cases": 500,
                "graphs_with_former_links": 20, "graphs_edited_in_place_with_warm_caches": 200, "fresh_interpreters_by_first_seen_link_class": 10}
    return {"rows_single_link": 500, "evaluations": 50000, "corollary_pairs": 5000, "equal_but_distinct_end_cases": 500,
            "graphs_with_former_links": 20, "graphs_edited_in_place_with_warm_caches": 200, "fresh_interpreters_by_first_seen_link_class": 10}


def _pos(link, v):
    a, b = link.vertices
    if a is v and b is v:
        return "both"
    return "origin" if a is v else "dest"


def _filter_cat(fname, filt, link, other):
    if filt is None:
        return "none"
    if fname in ("accept", "reject"):
        return fname
    return "sel+" if filt(link, other) else "sel-"


class _Quiet:
    """Context stand-in used while shrinking (records nothing)."""

    def evaluated(self, n=1):
        pass

    def nontrivial(self, case):
        pass

    def count(self, key, n=1):
        pass

    def violation(self, *a, **k):
        pass


def check_vertex(ctx, g, vi, dname, uname, fname, cache, row_counter=None, _shrinking=False):
    """One oracle evaluation.  Returns True if it matched."""
    v = g.verts[vi]
    d, u = DIRS[dname], UNKS[uname]
    filt = zoo.NB_FILTERS[fname]
    Vertex.NEIGHBOR_CACHING = bool(cache)
    try:
        got = oracles.outcome(helpers.neighbors, v, d, u, filt)
        if cache:
            got2 = oracles.outcome(helpers.neighbors, v, d, u, filt)
        else:
            got2 = got
    finally:
        Vertex.NEIGHBOR_CACHING = False
    exp = oracles.table_neighbors(v, d, u, filt)
    ctx.evaluated()
    links = v.links
    sig = sorted(
        (zoo.kind_of(l), _pos(l, v), _filter_cat(fname, filt, l, l.other(v))) for l in links
    )
    if links:
        ctx.nontrivial(("row", tuple(sig), dname, uname))
    if len(links) == 1 and row_counter is not None:
        key = (type(links[0]).__name__, sig[0][1], dname, uname, fname)
        if key not in row_counter:
            row_counter.add(key)
            ctx.count("rows_single_link")
    ok = oracles.matches(exp, got) and oracles.matches(exp, got2)
    if not ok and len(links) > 1 and not _shrinking:
        # shrink the graph to the fewest links that still disagree
        from egverif.common import ddmin

        def fails(edges):
            sub = dict(g.spec, edges=edges)
            return not check_vertex(_Quiet(), graphs.build(sub), vi, dname, uname, fname, cache, _shrinking=True)

        small = ddmin(list(g.spec["edges"]), fails)
        if fails(small):
            g2 = graphs.build(dict(g.spec, edges=small))
            return check_vertex(ctx, g2, vi, dname, uname, fname, cache, _shrinking=True)
    if not ok:
        kinds = "+".join(sorted({f"{k}@{p}/{fc}" if k == "D" else f"{k}/{fc}" for k, p, fc in sig}))
        if len(links) > 1:
            kinds = "multi:" + kinds
        mech = f"table:{dname}:{uname}:{kinds}"
        ctx.violation(
            mech,
            f"neighbors(v{vi}, {dname}, {uname}, filter={fname}, caching={cache}) returned "
            f"{_show(g, got)} (second call {_show(g, got2)}); decision table expects {_show(g, exp)}; "
            f"links at v{vi}: {[(type(l).__name__, g.names(l.vertices)) for l in links]}",
            {"kind": "vertex", "spec": g.spec, "v": vi, "dir": dname, "unk": uname,
             "filt": fname, "cache": bool(cache)},
        )
    return ok


def _show(g, res):
    if isinstance(res, oracles.Raises):
        return repr(res) if not res.has_alt else f"Raises({res.exc.__name__}) or {g.names(res.alt)}"
    if isinstance(res, tuple):
        if res[0] == "exc":
            return f"raised {res[1].__name__}"
        try:
            return g.names(res[1])
        except TypeError:
            return repr(res[1])
    return g.names(res)


def corollary(ctx, g, uname, fname):
    """count(w in N->(v)) == count(v in N<-(w)) on the real outputs."""
    u = UNKS[uname]
    filt = zoo.NB_FILTERS[fname]
    fw, bw = [], []
    for v in g.verts:
        a = oracles.outcome(helpers.neighbors, v, oracles.FORWARD, u, filt)
        b = oracles.outcome(helpers.neighbors, v, oracles.BACKWARD, u, filt)
        if a[0] != "ok" or b[0] != "ok":
            return
        fw.append(a[1])
        bw.append(b[1])
    for i, v in enumerate(g.verts):
        for j, w in enumerate(g.verts):
            k1 = sum(1 for x in fw[i] if x is w)
            k2 = sum(1 for x in bw[j] if x is v)
            ctx.count("corollary_pairs")
            if k1 or k2:
                ctx.count("corollary_pairs_nonzero")
            if k1 != k2:
                ctx.violation(
                    f"corollary:{uname}:{fname}",
                    f"v{j} occurs {k1}x in FORWARD neighbours of v{i} but v{i} occurs {k2}x in "
                    f"BACKWARD neighbours of v{j} (unknown={uname}, filter={fname})",
                    {"kind": "corollary", "spec": g.spec, "unk": uname, "filt": fname},
                )
                return


def apply_edits(g, edits):
    """In-place edits through the public API: the table must describe the graph as it IS, whatever it was."""
    for ed in edits:
        k = ed[1]
        if k >= len(g.edges) or not isinstance(g.edges[k], TwoEndedLink) or len(g.edges[k].vertices) != 2:
            continue
        e = g.edges[k]
        if ed[0] == "close":        # re-point one end onto the edge's own other end: a self-loop
            if ed[2]:
                e.v2 = e.v1
            else:
                e.v1 = e.v2
        elif ed[0] == "open":       # open a self-loop / move one end to another vertex
            setattr(e, "v2" if ed[2] else "v1", g.verts[ed[3] % len(g.verts)])
        elif ed[0] == "swap":
            a, b = e.v1, e.v2
            e.v1, e.v2 = b, a
        elif ed[0] == "same":       # assign an end the vertex it already holds
            e.v1 = e.v1
            e.v2 = e.v2


def edited_case(ctx, spec, edits, rng_seed):
    """Warm every cache entry, edit the graph in place, and judge every vertex against the table with caching on."""
    g = graphs.build(spec)
    settings = [(d, u, f) for d in DIRS for u in UNKS for f in ("none", "accept", "tagged_edge")]
    Vertex.NEIGHBOR_CACHING = True
    try:
        for v in g.verts:
            for d, u, f in settings:
                oracles.outcome(helpers.neighbors, v, DIRS[d], UNKS[u], zoo.NB_FILTERS[f])
        apply_edits(g, edits)
    finally:
        Vertex.NEIGHBOR_CACHING = False
    ctx.count("graphs_edited_in_place_with_warm_caches")
    r = random.Random(rng_seed)
    for vi in range(len(g.verts)):
        for d, u, f in r.sample(settings, 9):
            Vertex.NEIGHBOR_CACHING = True
            try:
                got = oracles.outcome(helpers.neighbors, g.verts[vi], DIRS[d], UNKS[u], zoo.NB_FILTERS[f])
            finally:
                Vertex.NEIGHBOR_CACHING = False
            exp = oracles.table_neighbors(g.verts[vi], DIRS[d], UNKS[u], zoo.NB_FILTERS[f])
            ctx.evaluated()
            if not oracles.matches(exp, got):
                ctx.violation(f"table_after_edit:{d}:{u}:{'+'.join(sorted({e[0] for e in edits}))}",
                              f"after in-place edits {edits} (caches warm, caching on) neighbors(v{vi}, {d}, {u}, filter={f}) "
                              f"returned {_show(g, got)}; the table expects {_show(g, exp)}; links at v{vi}: "
                              f"{[(type(l).__name__, g.names(l.vertices)) for l in g.verts[vi].links]}",
                              {"kind": "edited", "spec": spec, "edits": edits, "rseed": rng_seed})
                return


FIRST_SEEN = r"""
import json, sys
from egverif import common
common.assert_repo_under_test()
from egverif import graphs, oracles, zoo
from egverif.oracles import DIRS, UNKS
from edgegraph.traversal import helpers
first, classes = sys.argv[1], json.loads(sys.argv[2])
bad = []
def judge(cname):
    for (i, j) in ((0, 1), (1, 0), (0, 0)):
        g = graphs.build({"verts": ["Vertex", "VSub"], "edges": [[cname, i, j, 0]], "uni": None})
        for d in ("FORWARD", "ANY", "BACKWARD"):
            for u in UNKS:
                got = oracles.outcome(helpers.neighbors, g.verts[0], DIRS[d], UNKS[u], None)
                exp = oracles.table_neighbors(g.verts[0], DIRS[d], UNKS[u], None)
                if not oracles.matches(exp, got):
                    bad.append([cname, [i, j], d, u, str(got[1] if got[0] == "exc" else g.names(got[1]))])
judge(first)                       # the very first link class neighbors() meets in this interpreter
for c in classes:
    judge(c)
print(json.dumps({"n": 9 * 3 * (1 + len(classes)), "bad": bad[:5]}))
"""


def first_seen_orders(ctx):
    """
    Process-wide history: the answer for a link must not depend on which link CLASS this interpreter happened to
    query first (a base class before its subclasses, an unknown class before the known ones, ...).  One fresh
    interpreter per first-seen class; then the one-link table for every class.
    """
    import json
    import subprocess
    import sys

    from egverif import common

    classes = list(graphs._ECLS)
    import os

    verif = os.path.dirname(os.path.dirname(os.path.dirname(os.path.abspath(__file__))))
    env = dict(os.environ, PYTHONPATH=verif + os.pathsep + common.repo_dir(), PYTHONHASHSEED="0")
    for first in classes:
        r = subprocess.run([sys.executable, "-B", "-c", FIRST_SEEN, first, json.dumps(classes)], capture_output=True, text=True,
                           timeout=300, env=env)
        if r.returncode != 0:
            raise RuntimeError("first-seen worker failed: " + r.stderr[-500:])
        out = json.loads(r.stdout.strip().splitlines()[-1])
        ctx.evaluated(out["n"])
        ctx.count("fresh_interpreters_by_first_seen_link_class")
        if out["bad"]:
            cname, place, d, u, got = out["bad"][0]
            ctx.violation(f"table:{d}:{u}:process_first_met:{first}",
                          f"in an interpreter whose first neighbors() query met a {first}, neighbors() on a single {cname} at "
                          f"placement {place} under {d}/{u} answers {got}: {len(out['bad'])}+ rows of the one-link table are wrong",
                          {"kind": "first_seen", "first": first})


def single_and_double_specs():
    classes = list(graphs._ECLS)
    placements = [(0, 1), (1, 0), (0, 0)]  # v0 is origin / destination / both
    for c in classes:
        for (i, j) in placements:
            for tag in (0, 1):
                yield {"verts": ["Vertex", "VSub"], "edges": [[c, i, j, tag]], "uni": None}
    for c1, c2 in itertools.product(classes, repeat=2):
        for p1, p2 in itertools.product(placements, repeat=2):
            yield {"verts": ["Vertex", "VSub"],
                   "edges": [[c1, p1[0], p1[1], 0], [c2, p2[0], p2[1], 1]], "uni": None}


def twin_specs():
    """Distinct but EQUAL vertices (value __eq__) at the two ends of a link: 'the opposite end' is an identity notion."""
    for c in zoo.EDGE_CLASSES:
        for (i, j) in ((0, 1), (1, 0)):
            yield {"verts": ["EqVertex", "EqVertex", "Vertex"], "edges": [[c, i, j, 0], [c, 2, 0, 1], [c, 1, 2, 2]], "uni": None}


def run(ctx):
    rng = random.Random(ctx.seed * 1000003 + ctx.shard)
    rows = set()
    filters = list(zoo.NB_FILTERS)
    if ctx.shard == 0:
        for spec in twin_specs():
            g = graphs.build(spec)
            for vi in range(3):
                for dname in oracles.DIR_NAMES:
                    for uname in UNKS:
                        for fname in ("none", "tagged_edge", "reject"):
                            check_vertex(ctx, g, vi, dname, uname, fname, cache=False)
                            ctx.count("equal_but_distinct_end_cases")
    # ---- part 1: exhaustive one-/two-link table ---------------------------
    for n, spec in enumerate(single_and_double_specs()):
        if n % ctx.nshards != ctx.shard:
            continue
        g = graphs.build(spec)
        two = len(spec["edges"]) == 2
        for dname in oracles.DIR_NAMES:
            for uname in UNKS:
                fl = filters if not two else ("none", "reject", "tagged_edge", "even_vertex")
                for fname in fl:
                    check_vertex(ctx, g, 0, dname, uname, fname, cache=(n + len(fname)) % 2, row_counter=rows)
        if n < 48 * 2:
            ctx.count("prelude_single_specs")
    if ctx.nshards > 1:
        # rows are counted per shard; the floor is on the merged count
        pass
    # ---- part 2: random multigraphs ---------------------------------------
    ngraphs = ctx.n(250 if ctx.tier == "quick" else 2500)
    for n in range(ngraphs):
        spec = graphs.rand_spec(rng, nmax=6, mmax=12, uni_mode="none", ecls=graphs.ECLS_X,
                                vcls=graphs.VCLS_MIX + ["RankedVertex", "RankedVertex"])
        g = graphs.build(spec)
        if n < 2:
            ctx.sample({"spec": spec, "checked": "every vertex x 3 directions x 3 unknown modes x 7 filters + corollary"})
        for f in graphs.features(spec):
            ctx.count("graphs_with_" + f)
        for vi in range(len(g.verts)):
            for dname in oracles.DIR_NAMES:
                for uname in UNKS:
                    for fname in filters:
                        check_vertex(ctx, g, vi, dname, uname, fname, cache=rng.random() < 0.3)
        for uname in UNKS:
            for fname in EDGE_ONLY_FILTERS:
                corollary(ctx, g, uname, fname)
    if ctx.shard == 0:
        first_seen_orders(ctx)
    # ---- part 3: the table after in-place edits on warm caches ---------------
    for n in range(ctx.n(300 if ctx.tier == "quick" else 1500)):
        spec = graphs.rand_spec(rng, nmax=5, mmax=8, uni_mode="none", ecls=graphs.ECLS_ALL, self_p=0.25)
        if not spec["edges"]:
            continue
        spec.pop("edges_gone", None)
        edits = [[rng.choice(["close", "close", "open", "swap", "same"]), rng.randrange(len(spec["edges"])),
                  rng.random() < 0.5, rng.randrange(5)] for _ in range(rng.randint(1, 3))]
        edited_case(ctx, spec, edits, rng.randrange(10 ** 6))
    ctx.sample({"spec": {"verts": ["Vertex", "VSub"], "edges": [["OtherLink", 0, 1, 1]], "uni": None},
                "checked": "v0 x 3 directions x 3 unknown modes x 7 filters (one of 48 single-link + 576 two-link tables)"})
    ctx.assumptions += [
        "filters are pure functions of immutable data",
        "only complete two-ended links at the queried vertex",
        "under LNK_UNKNOWN_ERROR with a filter rejecting every unknown link, NotImplementedError or the filtered answer are both accepted",
    ]


def replay(ctx, case):
    g = graphs.build(case["spec"])
    if case["kind"] == "first_seen":
        first_seen_orders(ctx)
    elif case["kind"] == "edited":
        edited_case(ctx, case["spec"], case["edits"], case["rseed"])
    elif case["kind"] == "vertex":
        check_vertex(ctx, g, case["v"], case["dir"], case["unk"], case["filt"], case["cache"])
    else:
        corollary(ctx, g, case["unk"], case["filt"])
    ctx.nontrivial("replay-a")
    ctx.nontrivial("replay-b")
