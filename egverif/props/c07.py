"""
C07 -- traversal order is the canonical BFS / DFS order induced by link order.
"""

from __future__ import annotations

import random
import sys

from egverif.props import c06
from egverif import graphs, oracles, trav

RULE = (
    "same case stream as C06; for each case bft is compared element-wise with a level-synchronous reference BFS "
    "(and hop distances must be non-decreasing), dft_recursive with an explicit-iterator pre-order DFS, dft_iterative "
    "with pre-order over reversed neighbour lists (= explicit stack, most recently pushed first); every call is "
    "repeated and the spec is rebuilt to check determinism.  Non-trivial/distinct = distinct triples of (bft, "
    "dft_recursive, dft_iterative) name sequences that are pairwise different, i.e. graphs on which order is "
    "actually discriminated."
)
WANT = {"C07"}


def floors(ctx):
    return {"evaluations": 3000 if ctx.tier == "quick" else 30000,
            "graphs_orders_all_differ": 300 if ctx.tier == "quick" else 3000, "graphs_with_former_members": 20, "graphs_with_former_links": 20,
            "traversals_called_from_a_deep_caller": 100}


def _frames():
    n, f = 0, sys._getframe()
    while f is not None:
        n, f = n + 1, f.f_back
    return n


def _descend(n, fn):
    return fn() if n <= 0 else _descend(n - 1, fn)


def at_depth(free, fn):
    """Call fn() from a caller that has only `free` interpreter frames left below the recursion limit."""
    return _descend(sys.getrecursionlimit() - _frames() - free - 3, fn)


def broom(handle, fan):
    """A chain of `handle` vertices whose last one fans out into `fan` branches of two vertices each, cross-linked."""
    n = handle + 2 * fan
    edges = [["DirectedEdge", i, i + 1, i] for i in range(handle - 1)]
    for k in range(fan):
        a = handle + 2 * k
        edges += [["DirectedEdge", handle - 1, a, a], ["DirectedEdge", a, a + 1, a + 1]]
        if k:
            edges.append(["UnDirectedEdge", a, a - 1, 50 + k])
    return {"verts": ["Vertex"] * n, "edges": edges, "uni": list(range(n))}


def caller_stack_depth(ctx, rng):
    """
    The listing is a function of the graph alone: the same call made from a caller that sits deep in the interpreter
    stack (a recursive-descent parser, a GUI callback under a deep widget tree) gives the same sequence - or, if the
    remaining frames do not suffice, RecursionError; never another order.
    """
    specs = [broom(h, f) for h in (2, 4, 6, 9, 12) for f in (2, 3)]
    for _ in range(ctx.n(12)):
        specs.append(graphs.rand_spec(rng, nmax=9, mmax=16, uni_mode="all", ecls=graphs.ECLS_DU, vcls=graphs.VCLS_PLAIN))
    for spec in specs:
        for key in ("half", "edges_gone", "extra", "uni_gone"):
            spec.pop(key, None)
        for name, (lf, _gf) in trav.TRAV.items():
            g = graphs.build(spec)
            if g.uni is None or not g.uni.vertices:
                continue
            kw = dict(direction_sensitive=oracles.FORWARD, unknown_handling=oracles.NEIGHBOR)
            top = oracles.outcome(lf, g.uni, g.verts[0], **kw)
            if top[0] != "ok":
                continue
            for free in (40, 46, 52, 56, 60, 66, 75, 90, 120):
                deep = at_depth(free, lambda: oracles.outcome(lf, g.uni, g.verts[0], **kw))
                ctx.evaluated()
                if deep[0] == "exc" and deep[1] is RecursionError:
                    ctx.count("deep_caller_runs_out_of_frames")
                    continue
                ctx.count("traversals_called_from_a_deep_caller")
                ctx.nontrivial(("deep", name, free, str(g.names(top[1]))))
                if deep[0] != "ok" or not oracles.same_identities(deep[1], top[1]):
                    ctx.violation(f"{name}:order_depends_on_caller_stack_depth",
                                  f"{name} called with {free} interpreter frames left gives "
                                  f"{g.names(deep[1]) if deep[0] == 'ok' else deep}; from the top level {g.names(top[1])}; "
                                  f"edges={spec['edges']}", {"deep_caller": True, "spec": spec})
                    break


def run(ctx):
    c06.run(ctx, want=WANT, scale=2)
    if ctx.shard in (0, 7):
        caller_stack_depth(ctx, random.Random(ctx.seed * 7919 + ctx.shard))
    ctx.assumptions[:] = [
        "neighbour order is the real neighbors() order (C03/C04 pin link order and neighbors)",
        "filters are pure; start is a member of the universe (or universe is None)",
    ]


def replay(ctx, case):
    if case.get("deep_caller"):
        caller_stack_depth(ctx, random.Random(0))
        ctx.nontrivial("replay-a")
        ctx.nontrivial("replay-b")
        return
    with oracles.NeighborCounter() as nc:
        trav.run_case(ctx, nc, case["spec"], case["start"], case["dir"], case["unk"], case["via"], case["res"],
                      case["cache"], WANT, then=case.get("then"))
    ctx.nontrivial("replay-a")
    ctx.nontrivial("replay-b")
