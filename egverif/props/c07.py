"""
C07 -- traversal order is the canonical BFS / DFS order induced by link order.
"""

from __future__ import annotations

from egverif.props import c06
from egverif import oracles, trav

RULE = (
    "same case stream as C06; for each case bft is compared element-wise with a level-synchronous reference BFS "
    "(and hop distances must be non-decreasing), dft_recursive with an explicit-iterator pre-order DFS, dft_iterative "
    "with pre-order over reversed neighbour lists (= explicit stack, most recently pushed first); every call is "
    "repeated and the spec is rebuilt to check determinism.  Non-trivial/distinct = distinct triples of (bft, "
    "dft_recursive, dft_iterative) name sequences that are pairwise different, i.e. graphs on which order is "
    "actually discriminated."
)
WANT = {"C07"}


def floors(ctx):
    return {"evaluations": 3000 if ctx.tier == "quick" else 30000,
            "graphs_orders_all_differ": 300 if ctx.tier == "quick" else 3000, "graphs_with_former_members": 20, "graphs_with_former_links": 20}


def run(ctx):
    c06.run(ctx, want=WANT, scale=2)
    ctx.assumptions[:] = [
        "neighbour order is the real neighbors() order (C03/C04 pin link order and neighbors)",
        "filters are pure; start is a member of the universe (or universe is None)",
    ]


def replay(ctx, case):
    with oracles.NeighborCounter() as nc:
        trav.run_case(ctx, nc, case["spec"], case["start"], case["dir"], case["unk"], case["via"], case["res"],
                      case["cache"], WANT, then=case.get("then"))
    ctx.nontrivial("replay-a")
    ctx.nontrivial("replay-b")
