"""
C16 -- plain-text rendering: one well-formed line per vertex listing its neighbours.
"""

from __future__ import annotations

import random

from edgegraph.output import plaintext
from edgegraph.traversal import helpers

from egverif import graphs, oracles, trav

RULE = (
    "cases = (graph spec with a universe, rfunc in {None,str(idx),'<idx>'}, sort in {None,by idx,by -idx,constant,"
    "idx mod 2}); shape families and random directed/undirected multigraphs with isolated members, self-loops, "
    "parallel edges and neighbours outside the universe.  The returned text is split into lines and each line is "
    "compared with rendering + ' -> ' + ', '.join(renderings of the real neighbors()).  Non-trivial = universe has a "
    "member with neighbours; distinct = distinct (graph shape, universe order, rfunc, sort)."
)


def r_idx(v):
    return str(v.idx)


def r_angle(v):
    return f"<{type(v).__name__}#{v.idx}>"


def r_padded(v):
    """column-aligned labels: end in spaces"""
    return f"n{v.idx}".ljust(5)


def r_punct(v):
    """labels ending in the separator's own characters, or empty"""
    return ["", "a,", "b, ", " ", "c -> d", ",", "e"][v.idx % 7]


def r_control(v):
    """
    Labels as they come out of files and terminals: carriage returns, form feeds, Unicode line / paragraph
    separators, NEL, tabs, NUL - none of them is the line feed that separates the vertices' lines.
    """
    return ["alpha\r", "a\x0cb", "\u2028x", "x\x85", "\x1c", "t\tab", "nul\x00", "\x0b", "y\u2029", "\x1e\x1d"][v.idx % 10] + str(v.idx)


def k_int(v):
    """One callable used BOTH as rfunc and as sort: labels are ints whose text order is not their numeric order."""
    return v.idx * 7 - 20


RFUNCS = {"k_int": k_int, "none": None, "idx": r_idx, "angle": r_angle, "padded": r_padded, "punct": r_punct, "control": r_control}


def s_idx(v):
    return v.idx


def s_neg(v):
    return -v.idx


def s_const(v):
    return 0


def s_mod2(v):
    return v.idx % 2


def s_mixed_numbers(v):
    """Keys of different numeric TYPES that order fine among each other: 0.5 < 1 < 1.5 < True+1 ..."""
    i = v.idx
    return [i, i + 0.5, float(i) - 0.25, bool(i % 2) + i - 1][i % 4]


def s_tuple_key(v):
    """Composite keys: (group, -idx) - ties in the first component, mixed int/float inside"""
    return (v.idx % 3, -v.idx / 2 if v.idx % 2 else -v.idx)


class Desc:
    """The usual descending-order wrapper: implements __lt__ and nothing else (sorted() needs no more)."""

    def __init__(self, val):
        self.val = val

    def __lt__(self, other):
        return other.val < self.val


def s_lt_only(v):
    return Desc(v.idx % 5)


SORTS = {"k_int": k_int, "lt_only": s_lt_only, "none": None, "idx": s_idx, "neg": s_neg, "const": s_const, "mod2": s_mod2, "mixed_numbers": s_mixed_numbers,
         "tuple_key": s_tuple_key}


def floors(ctx):
    q = ctx.tier == "quick"
    return {"evaluations": 2000 if q else 20000, "lines_checked": 10000 if q else 100000,
            "lines_without_neighbours": 500, "lines_with_selfloop": 100, "lines_with_repeated_neighbour": 100,
            "lines_with_outside_neighbour": 100, "empty_universe": 5, "sort_ties": 100, "cases_with_caching_on": 100}


def run_case(ctx, spec, rname, sname, cache=False):
    from edgegraph.structure import Vertex

    Vertex.NEIGHBOR_CACHING = bool(cache)
    try:
        if cache:
            ctx.count("cases_with_caching_on")
            # render twice: the second rendering is served from warm neighbor caches
            _run_case(ctx, spec, rname, sname, cache, keep=None)
        return _run_case(ctx, spec, rname, sname, cache)
    finally:
        Vertex.NEIGHBOR_CACHING = False


_KEEP = {}


def _run_case(ctx, spec, rname, sname, cache, keep=False):
    if keep is None:
        _KEEP["g"] = graphs.build(spec)
        g = _KEEP["g"]
    elif cache and "g" in _KEEP:
        g = _KEEP.pop("g")
    else:
        g = graphs.build(spec)
    rf, sf = RFUNCS[rname], SORTS[sname]
    case = {"spec": spec, "rfunc": rname, "sort": sname, "cache": bool(cache)}
    res = oracles.outcome(plaintext.basic_render, g.uni, rf, sf)
    ctx.evaluated()
    tag = f"{'rfunc' if rf else 'repr'}:{'sort' if sf else 'nosort'}"
    members = g.uni.vertices
    if res[0] != "ok":
        ctx.violation(f"raised:{res[1].__name__}:{tag}", f"basic_render raised {res[1].__name__} on {spec}", case)
        return
    text = res[1]
    if not members:
        ctx.count("empty_universe")
        if text is not None:
            ctx.violation("empty_universe_not_none", f"empty universe rendered as {text!r}", case)
        return
    if not isinstance(text, str):
        ctx.violation("not_a_string", f"returned {type(text).__name__}", case)
        return
    r0 = rf or repr

    def r(x):
        # whatever the render function returns is formatted into the line (the documented example returns an int)
        return f"{r0(x)}"

    order = sorted(members, key=sf) if sf else list(members)
    if sf and len({sf(v) for v in members}) < len(members):
        ctx.count("sort_ties")
    lines = text.split("\n")
    if len(lines) != len(order):
        ctx.violation(f"line_count:{tag}", f"{len(lines)} lines for {len(order)} members: {text!r}", case)
        return
    member_ids = {id(v) for v in members}
    any_nb = False
    for v, line in zip(order, lines):
        nbs = helpers.neighbors(v)
        if sf:
            nbs = sorted(nbs, key=sf)
        ctx.count("lines_checked")
        if nbs:
            any_nb = True
            if any(n is v for n in nbs):
                ctx.count("lines_with_selfloop")
            if len({id(n) for n in nbs}) < len(nbs):
                ctx.count("lines_with_repeated_neighbour")
            if any(id(n) not in member_ids for n in nbs):
                ctx.count("lines_with_outside_neighbour")
            ok = line == r(v) + " -> " + ", ".join(r(n) for n in nbs)
            clause = "line_with_neighbours"
        else:
            ctx.count("lines_without_neighbours")
            ok = line in (r(v) + " ->", r(v) + " -> ")
            clause = "line_without_neighbours"
        if not ok:
            ctx.violation(
                clause,
                f"line for v{v.idx} is {line!r}; expected {r(v) + ' -> ' + ', '.join(r(n) for n in nbs)!r} "
                f"(neighbours {g.names(nbs)}; member order {g.names(order)})",
                case,
            )
            return
    if any_nb:
        ctx.nontrivial(("r", trav._shape(spec), rname, sname))


def run(ctx):
    rng = random.Random(ctx.seed * 31337 + ctx.shard * 7 + 16)
    quick = ctx.tier == "quick"
    frng = random.Random(5)
    specs = []
    for spec in graphs.family_specs(frng, sizes=(4, 7), ecls=graphs.ECLS_DU, vcls=graphs.VCLS_X + ["VCity", "VCity"]):
        spec = dict(spec)
        if spec["uni"] is None:
            spec["uni"] = list(range(len(spec["verts"])))
        specs.append(spec)
    specs.append({"verts": ["Vertex"], "edges": [], "uni": [0]})
    brng = random.Random(1616)
    nbig = 300
    specs.append({"verts": ["Vertex"] * nbig, "uni": list(range(nbig)),
                  "edges": [[brng.choice(graphs.ECLS_DU), brng.randrange(nbig), brng.randrange(nbig), k] for k in range(900)]
                  + [["DirectedEdge", 0, c, 0] for c in range(1, 140)]})
    specs.append({"verts": ["Vertex", "Vertex"], "edges": [], "uni": []})
    specs.append({"verts": ["Vertex", "Vertex"], "edges": [["DirectedEdge", 0, 1, 0]], "uni": [1, 0]})
    n_random = ctx.n(1200 if quick else 8000)
    k = 0
    for n in range(len(specs) + n_random):
        if n < len(specs):
            if n % ctx.nshards != ctx.shard:
                continue
            spec = specs[n]
        else:
            spec = graphs.rand_spec(rng, nmax=7 if quick else 12, mmax=9 if quick else 24, ecls=graphs.ECLS_DU, vcls=graphs.VCLS_X + ["VCity", "VCity"],
                                    uni_mode="rand")
            if spec["uni"] is None:
                spec["uni"] = [i for i in range(len(spec["verts"])) if rng.random() < 0.8]
                rng.shuffle(spec["uni"])
        for rname in RFUNCS:
            for sname in SORTS:
                run_case(ctx, spec, rname, sname, cache=(n + len(rname) + len(sname)) % 3 == 0)
        k += 1
        if k in (4, 200) and ctx.shard == 0:
            ctx.sample({"spec": spec, "rfunc": list(RFUNCS), "sort": list(SORTS)})
    ctx.assumptions += ["graphs hold only directed/undirected edges (basic_render uses default neighbors())",
                        "renderings contain no newline (they may be empty, end in spaces/commas or contain the separators); a line for a vertex without neighbours may end in '->' or '-> '"]


def replay(ctx, case):
    run_case(ctx, case["spec"], case["rfunc"], case["sort"], case.get("cache", False))
    ctx.nontrivial("replay-a")
    ctx.nontrivial("replay-b")
