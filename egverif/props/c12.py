"""
C12 -- containers handed out or taken in are snapshots; mutating them changes nothing.
"""

from __future__ import annotations

import random

from edgegraph.builder import adjlist, adjmatrix
from edgegraph.structure import DirectedEdge, Link, UnDirectedEdge, Universe, Vertex
from edgegraph.structure.universe import UniverseLaws
from edgegraph.structure.base import BaseObject
from edgegraph.traversal import breadthfirst, depthfirst, helpers

from egverif import histories, observe, oracles, zoo

RULE = (
    "cases = (pool reached by a random structure history, accessor or query, one container mutation, caching "
    "off/on-cold/on-warm).  Every collection returned by Vertex.links, Link.vertices, Universe.vertices, "
    "BaseObject.universes, UniverseLaws.edge_whitelist (both levels), neighbors(), find_links(), bft/dft_* and their "
    "generator forms is attacked with every applicable mutation (append, extend, insert, remove, pop, clear, sort, "
    "reverse, item assignment, slice deletion, +=, set add/discard/clear, dict set/del); an immutable container "
    "counts as protected.  Afterwards the whole observable snapshot and the answer of the repeated query must be "
    "unchanged.  Likewise every container passed to Vertex(links=,universes=,attributes=), Universe(vertices=), "
    "Link(vertices=), UniverseLaws(edge_whitelist=), load_adj_dict and load_adj_matrix is mutated after the call.  "
    "Non-trivial = the container was non-empty or the mutation inserted a foreign element; distinct = distinct "
    "(accessor, mutation, caching mode, container content)."
)

LIST_MUTS = ["append", "extend", "insert", "remove", "pop", "clear", "sort", "reverse", "setitem", "delslice", "iadd", "imul"]
SET_MUTS = ["add", "discard", "clear", "pop", "update"]
MAP_MUTS = ["setitem", "delitem", "clear", "update", "inner_setitem", "inner_clear"]


def floors(ctx):
    q = ctx.tier == "quick"
    f = {"evaluations": 5000 if q else 50000, "mutation_took_effect_on_copy": 1000, "protected_by_immutability": 500,
         "input_probes": 300, "input_probes_with_unhashable_members": 50, "input_probes_fed_with_accessor_results": 10, "input_probes_on_the_base_class": 10, "law_sets_probed_per_flag_combination": 16, "two_results_in_hand_probes": 500, "sibling_key_probes": 200, "first_read_after_other_side_change_probes": 200}
    for acc in ("links", "vertices", "u_vertices", "universes", "neighbors", "find_links", "bft", "dft_recursive",
                "dft_iterative", "ibft", "edge_whitelist"):
        for mode in ("off", "cold", "warm", "off_then_on", "off_cold"):
            if acc in ("neighbors", "bft", "dft_recursive", "dft_iterative", "ibft") or mode == "off":
                f[f"probe:{acc}:{mode}"] = 5
    return f


def mutate(cont, kind, foreign):
    """Apply one mutation; returns 'mutated' | 'protected' | 'n/a'."""
    try:
        if isinstance(cont, list):
            if kind == "append":
                cont.append(foreign)
            elif kind == "extend":
                cont.extend([foreign, foreign])
            elif kind == "insert":
                cont.insert(0, foreign)
            elif kind == "remove":
                if not cont:
                    return "n/a"
                cont.remove(cont[0])
            elif kind == "pop":
                if not cont:
                    return "n/a"
                cont.pop()
            elif kind == "clear":
                cont.clear()
            elif kind == "sort":
                cont.sort(key=lambda o: -id(o))
            elif kind == "reverse":
                cont.reverse()
            elif kind == "setitem":
                if not cont:
                    return "n/a"
                cont[0] = foreign
            elif kind == "delslice":
                del cont[:]
            elif kind == "iadd":
                cont += [foreign]
            elif kind == "imul":
                cont *= 2
            else:
                return "n/a"
            return "mutated"
        if isinstance(cont, tuple):
            for attr in ("append", "clear", "sort", "remove"):
                if hasattr(cont, attr):
                    getattr(cont, attr)()
                    return "mutated"
            if kind == "setitem" and cont:
                cont[0] = foreign  # raises TypeError
                return "mutated"
            return "protected"
        if isinstance(cont, (set, frozenset)):
            if isinstance(cont, frozenset):
                return "protected"
            if kind == "add":
                cont.add(foreign)
            elif kind == "discard":
                if not cont:
                    return "n/a"
                cont.discard(next(iter(cont)))
            elif kind == "clear":
                cont.clear()
            elif kind == "pop":
                if not cont:
                    return "n/a"
                cont.pop()
            elif kind == "update":
                cont.update([foreign])
            else:
                return "n/a"
            return "mutated"
        # mapping (dict or proxy)
        if kind == "setitem":
            cont[Link] = {}
        elif kind == "delitem":
            if not len(cont):
                return "n/a"
            del cont[next(iter(cont))]
        elif kind == "clear":
            cont.clear()
        elif kind == "update":
            cont.update({Link: {}})
        elif kind == "inner_setitem":
            if not len(cont):
                return "n/a"
            cont[next(iter(cont))][Link] = Link
        elif kind == "inner_clear":
            if not len(cont):
                return "n/a"
            cont[next(iter(cont))].clear()
        else:
            return "n/a"
        return "mutated"
    except (TypeError, AttributeError):
        return "protected"


def canon(pool, val):
    if val is None:
        return None
    if isinstance(val, (list, tuple)):
        return [pool.name(x) if not isinstance(x, str) else x for x in val]
    if isinstance(val, (set, frozenset)):
        return sorted(pool.name(x) for x in val)
    try:
        return {repr(k): {repr(a): repr(b) for a, b in v.items()} for k, v in val.items()}
    except AttributeError:
        return repr(val)


def full_state(pool):
    snap = observe.snapshot(pool)
    wl = {}
    for n, o in pool.objs.items():
        if isinstance(o, UniverseLaws):
            wl[n] = canon(pool, o.edge_whitelist)
    return snap, wl


def accessors(pool, rng):
    """Yield (accessor name, thunk) over the pool's objects."""
    vs = [o for o in pool.objs.values() if isinstance(o, Vertex)]
    ls = [o for o in pool.objs.values() if isinstance(o, Link)]
    us = [o for o in pool.objs.values() if isinstance(o, Universe)]
    ws = [o for o in pool.objs.values() if isinstance(o, UniverseLaws)]
    for v in vs:
        yield "links", (lambda v=v: v.links)
        yield "universes", (lambda v=v: v.universes)
    for l in ls:
        yield "vertices", (lambda l=l: l.vertices)
    for u in us:
        yield "u_vertices", (lambda u=u: u.vertices)
    for w in ws:
        yield "edge_whitelist", (lambda w=w: w.edge_whitelist)
    # every direction x unknown-handling x {no filter, two filters}: fast paths live on particular combinations
    keys = [(d, u, f) for d in (oracles.FORWARD, oracles.ANY, oracles.BACKWARD)
            for u in (oracles.NEIGHBOR, oracles.NONNEIGHBOR) for f in (None, None, zoo.f_tagged_edge, zoo.f_accept)]
    for v in vs:
        d, u, f = rng.choice(keys)
        yield "neighbors", (lambda v=v, d=d, u=u, f=f: helpers.neighbors(v, d, u, f))
        w = rng.choice(vs)
        yield "find_links", (lambda v=v, w=w: helpers.find_links(v, w, False, oracles.NEIGHBOR, None))
        for name, fn in (("bft", breadthfirst.bft), ("dft_recursive", depthfirst.dft_recursive),
                         ("dft_iterative", depthfirst.dft_iterative),
                         ("ibft", lambda *a, **k: list(breadthfirst.ibft(*a, **k)))):
            yield name, (lambda v=v, fn=fn: fn(None, v, direction_sensitive=oracles.ANY,
                                              unknown_handling=oracles.NEIGHBOR))


def probe_returned(ctx, pool, rng, history):
    vs = [o for o in pool.objs.values() if isinstance(o, Vertex)]
    foreign_pool = vs + [o for o in pool.objs.values() if isinstance(o, Link)] + ["foreign"]
    for acc, thunk in accessors(pool, rng):
        for mode in ("off", "cold", "warm", "off_then_on", "off_cold"):
            if mode != "off" and acc not in ("neighbors", "bft", "dft_recursive", "dft_iterative", "ibft", "find_links"):
                continue
            first = oracles.outcome(thunk)
            if first[0] != "ok":
                continue  # degenerate graph: the query itself is outside its domain
            cont0 = first[1]
            muts = LIST_MUTS if isinstance(cont0, (list, tuple)) else SET_MUTS if isinstance(cont0, (set, frozenset)) else MAP_MUTS
            kind = rng.choice(muts)
            foreign = rng.choice(foreign_pool)
            Vertex.NEIGHBOR_CACHING = mode not in ("off", "off_then_on", "off_cold")
            try:
                if mode in ("cold", "off_cold"):
                    # (off_cold: the program-wide switch is off, but a vertex class may have switched caching on for
                    # itself - its first answer after an edit is a cache miss like any other)
                    # make sure no entry exists yet for any vertex: touch every vertex through a public mutator
                    # that leaves the graph as it is (add then remove a scratch edge)
                    for v in vs:
                        e = DirectedEdge(v, v)
                        v.remove_from_link(e)
                state0 = full_state(pool)
                r1 = oracles.outcome(thunk)
                if r1[0] != "ok":
                    continue
                if mode == "warm":
                    r1 = oracles.outcome(thunk)  # second call: served from the cache when caching is on
                cont = r1[1]
                before = canon(pool, cont)
                how = mutate(cont, kind, foreign)
                ctx.evaluated()
                ctx.count(f"probe:{acc}:{mode}")
                if how == "n/a":
                    continue
                if how == "protected":
                    ctx.count("protected_by_immutability")
                else:
                    if canon(pool, cont) != before:
                        ctx.count("mutation_took_effect_on_copy")
                state1 = full_state(pool)
                if mode == "off_then_on":
                    Vertex.NEIGHBOR_CACHING = True
                r2 = oracles.outcome(thunk)
                after = canon(pool, r2[1]) if r2[0] == "ok" else ("raised", r2[1].__name__)
                case = {"kind": "returned", "ops": history, "accessor": acc, "mutation": kind, "mode": mode}
                if before or how == "mutated":
                    ctx.nontrivial(("ret", acc, kind, mode, str(before)))
                if state1 != state0:
                    ctx.violation(f"returned:{acc}:graph_changed", f"mutating ({kind}) the {type(cont).__name__} returned "
                                  f"by {acc} changed the graph: {histories._diff(state0[0], state1[0])} {state0[1]} -> {state1[1]}", case)
                elif after != before:
                    ctx.violation(f"returned:{acc}:later_answer_changed" + (":caching_on" if mode != "off" else ""),
                                  f"after {kind} on the {type(cont).__name__} returned by {acc} (caching {mode}) the same "
                                  f"query answers {after} instead of {before}", case)
                else:
                    # a separate pass (an extra query in the middle of the pass above would refresh what an
                    # implementation remembers and hide an aliased first answer): two answers to the same question are
                    # in hand at once - they belong to two callers, and what one does with his must not show in the other's
                    one, two = oracles.outcome(thunk), oracles.outcome(thunk)
                    if one[0] == "ok" and two[0] == "ok":
                        two_before = canon(pool, two[1])
                        if mutate(one[1], kind, foreign) == "mutated":
                            ctx.count("two_results_in_hand_probes")
                            if canon(pool, two[1]) != two_before:
                                ctx.violation(f"returned:{acc}:two_results_share_one_container" + (":caching_on" if mode != "off" else ""),
                                              f"two successive answers of {acc} were in hand; {kind} on the first changed the "
                                              f"second from {two_before} to {canon(pool, two[1])}", case)
            finally:
                Vertex.NEIGHBOR_CACHING = False


def probe_siblings(ctx, pool, rng, history):
    """
    What else is already in the cache: query K1, then - for the first time - a sibling key K2 (one of direction /
    unknown handling changed, the same filter object), mutate what K2 returned, and ask both again.
    """
    vs = [o for o in pool.objs.values() if isinstance(o, Vertex)]
    filters = [None, zoo.f_tagged_edge, zoo.f_accept]
    dirs = [oracles.FORWARD, oracles.ANY, oracles.BACKWARD]
    unks = [oracles.NEIGHBOR, oracles.NONNEIGHBOR]
    for v in vs:
        d1, u1, f = rng.choice(dirs), rng.choice(unks), rng.choice(filters)
        if rng.random() < 0.5:
            d2, u2 = d1, rng.choice([u for u in unks if u != u1])
        else:
            d2, u2 = rng.choice([d for d in dirs if d != d1]), u1
        which = rng.choice(["second", "first"])
        kind = rng.choice(LIST_MUTS)
        foreign = rng.choice(vs)
        Vertex.NEIGHBOR_CACHING = True
        try:
            for w in vs:  # cold caches: touch every vertex through a graph-neutral public edit
                e = DirectedEdge(w, w)
                w.remove_from_link(e)
            r1 = oracles.outcome(helpers.neighbors, v, d1, u1, f)
            r2 = oracles.outcome(helpers.neighbors, v, d2, u2, f)
            if r1[0] != "ok" or r2[0] != "ok":
                continue
            b1, b2 = canon(pool, r1[1]), canon(pool, r2[1])
            how = mutate(r2[1] if which == "second" else r1[1], kind, foreign)
            ctx.evaluated()
            ctx.count("sibling_key_probes")
            if how != "mutated":
                continue
            a1 = oracles.outcome(helpers.neighbors, v, d1, u1, f)
            a2 = oracles.outcome(helpers.neighbors, v, d2, u2, f)
            after = (canon(pool, a1[1]) if a1[0] == "ok" else ("raised", a1[1].__name__),
                     canon(pool, a2[1]) if a2[0] == "ok" else ("raised", a2[1].__name__))
            if b1 or b2:
                ctx.nontrivial(("sib", str(b1), str(b2), kind, which))
            if after != (b1, b2):
                ctx.violation("returned:neighbors:later_answer_changed:caching_on:sibling_key",
                              f"neighbors(v, {d1}, {u1}, f) then neighbors(v, {d2}, {u2}, f) (same filter, caching on, cold "
                              f"caches); after {kind} on the list returned by the {which} call the two queries answer {after} "
                              f"instead of {(b1, b2)}",
                              {"kind": "returned", "ops": history, "accessor": "neighbors", "mutation": kind, "mode": "sibling"})
        finally:
            Vertex.NEIGHBOR_CACHING = False


def probe_first_reads(ctx, pool, rng, history):
    """
    The FIRST read of an accessor after a change made from the other side of an association: a vertex joins or
    leaves a universe through the vertex-side call, a vertex is attached to a link from the vertex side - and the
    very next thing the caller does is read the collection and change what was handed out.  Membership known from
    before the change (+/- the one vertex) is the oracle; later universe-restricted traversals must follow it.
    """
    vs = [o for o in pool.objs.values() if isinstance(o, Vertex) and not isinstance(o, Universe)]
    us = [o for o in pool.objs.values() if isinstance(o, Universe)]
    if not vs:
        return
    u = rng.choice(us) if us and rng.random() < 0.7 else Universe()
    for cache in (False, True):
        Vertex.NEIGHBOR_CACHING = cache
        try:
            before = list(u.vertices)
            inside = [v for v in vs if any(v is m for m in before)]
            outside = [v for v in vs if not any(v is m for m in before)]
            if outside and (not inside or rng.random() < 0.6):
                v = rng.choice(outside)
                if oracles.outcome(v.add_to_universe, u)[0] != "ok":            # vertex-side join
                    continue
                expect = before + [v]
            elif inside:
                v = rng.choice(inside)
                if oracles.outcome(v.remove_from_universe, u)[0] != "ok":       # vertex-side leave
                    continue  # (a graph an earlier probe has already shown to be corrupted)
                expect = [m for m in before if m is not v]
            else:
                continue
            handed = u.vertices                 # the first read since the change
            kind = rng.choice(LIST_MUTS)
            how = mutate(handed, kind, rng.choice(vs))
            ctx.evaluated()
            ctx.count("first_read_after_other_side_change_probes")
            case = {"kind": "returned", "ops": history, "accessor": "u_vertices", "mutation": kind, "mode": "first_read"}
            again = u.vertices
            if not oracles.same_identities(list(again), expect):
                ctx.violation("returned:u_vertices:first_read_after_vertex_side_change:membership_changed",
                              f"after a vertex-side membership change and {kind} on the first list read from "
                              f"Universe.vertices, the universe lists {pool.names(again)} instead of {pool.names(expect)}", case)
                continue
            if how != "mutated" or not expect:
                continue
            ctx.nontrivial(("first", kind, len(expect), cache))
            inuni = lambda x: any(x is m for m in expect)  # noqa: E731
            for start in expect[:3]:
                refo = oracles.outcome(oracles.ref_bfs, start,
                                       lambda x: [w for w in helpers.neighbors(x, oracles.ANY, oracles.NEIGHBOR, None) if w is not None],
                                       inuni)
                if refo[0] != "ok":
                    continue  # a degenerate edge in reach: neighbors() itself refuses, nothing to compare
                ref = refo[1][0]
                for fn in (breadthfirst.bft, depthfirst.dft_iterative, depthfirst.dft_recursive):
                    got = oracles.outcome(fn, u, start, direction_sensitive=oracles.ANY, unknown_handling=oracles.NEIGHBOR)
                    if got[0] != "ok":
                        continue  # the traversal refuses this (degenerate) graph on its own
                    if {id(x) for x in got[1]} != {id(x) for x in ref}:
                        ctx.violation("returned:u_vertices:first_read_after_vertex_side_change:later_traversal_changed",
                                      f"after {kind} on the first list read from Universe.vertices following a vertex-side "
                                      f"membership change, {fn.__name__}(u, {pool.name(start)}) gives "
                                      f"{pool.names(got[1]) if got[0] == 'ok' else got[1].__name__}; members {pool.names(expect)} reach "
                                      f"{pool.names(ref)}", case)
                        break
        finally:
            Vertex.NEIGHBOR_CACHING = False


def probe_inputs(ctx, rng):
    """Containers passed to constructors / builders are copied."""
    def fresh(allow_unhashable=True):
        # (one in four members cannot be hashed: containers of such vertices take other code paths)
        vs = [(zoo.UnhashableVertex if allow_unhashable and rng.random() < 0.25 else
               zoo.VERTEX_CLASSES[rng.choice(["Vertex", "VSub", "FalsyVertex"])])(attributes={"idx": i}) for i in range(4)]
        if any(isinstance(v, zoo.UnhashableVertex) for v in vs):
            ctx.count("input_probes_with_unhashable_members")
        us = [Universe(), Universe()]
        ls = [DirectedEdge(vs[0], vs[1]), UnDirectedEdge(vs[1], vs[2])]
        return vs, us, ls

    def check(label, build, containers, read):
        """build() -> obj ; containers: list of (name, container, kinds); read(obj) -> comparable"""
        for cname, _, kinds in containers():
            for kind in kinds:
                obj, conts = build()
                cont = dict(conts)[cname]
                before = read(obj)
                how = mutate(cont, kind, zoo.Vertex(attributes={"idx": 99}) if not isinstance(cont, dict) else None)
                ctx.evaluated()
                ctx.count("input_probes")
                if how != "mutated":
                    continue
                after = read(obj)
                ctx.nontrivial(("in", label, cname, kind))
                if after != before:
                    ctx.violation(f"input:{label}.{cname}:aliased", f"mutating ({kind}) the container passed as {cname} to "
                                  f"{label} afterwards changed the object: {before} -> {after}",
                                  {"kind": "input", "label": label, "cname": cname, "mutation": kind})

    def names(objs):
        return [f"{type(o).__name__}@{getattr(o, 'idx', getattr(o, 'tag', '?'))}" if o is not None else None for o in objs]

    # Vertex(links=, universes=, attributes=) -- container sizes 0..3 (a one-element list is not a two-element list)
    def b_vertex(nl, nu):
        def build():
            vs, us, ls = fresh()
            us.append(Universe())
            ls.append(DirectedEdge(vs[2], vs[3]))
            L, U, A = ls[:nl], us[:nu], {"idx": 7, "color": "red"}
            v = Vertex(links=L, universes=U, attributes=A)
            return (v, us), [("links", L), ("universes", U), ("attributes", A)]

        return build

    def r_vertex(o):
        v, us = o
        return (names(v.links), len(v.universes), [len(u.vertices) for u in us], getattr(v, "color", None),
                sorted(k for k in vars(v) if not k.startswith("_")))

    for nl in range(4):
        for nu in range(4):
            check(f"Vertex[{nl} links,{nu} universes]".replace(f"[{nl} links,{nu} universes]", ""), b_vertex(nl, nu),
                  lambda: [("links", None, ["append", "clear", "reverse", "pop", "insert"]),
                           ("universes", None, ["append", "clear", "pop", "insert"]),
                           ("attributes", None, ["dset", "dclear"])], r_vertex)

    # Universe(vertices=)
    def b_uni(n):
        def build():
            vs, us, ls = fresh()
            VS = vs[:n]
            return Universe(vertices=VS), [("vertices", VS)]

        return build

    for n in range(4):
        check("Universe", b_uni(n), lambda: [("vertices", None, ["append", "clear", "reverse", "pop", "setitem", "insert"])],
              lambda u: names(u.vertices))

    # the root of the hierarchy, constructed directly and through a subclass without an __init__ of its own (the call
    # path is one frame shorter than Vertex's); the caller holds the list through exactly one name
    class Marker(BaseObject):
        pass

    def b_base(cls, nu, dup):
        def build():
            vs, us, ls = fresh()
            U = (us + [Universe()])[:nu] + (us[:1] if dup and nu else [])
            A = {"idx": 7, "color": "red"}
            o = cls(universes=U, attributes=A)
            return o, [("universes", U), ("attributes", A)]

        return build

    for cls in (BaseObject, Marker):
        for nu in range(4):
            for dup in (False, True):
                check(cls.__name__, b_base(cls, nu, dup),
                      lambda: [("universes", None, ["append", "clear", "pop", "insert", "reverse", "setitem"]),
                               ("attributes", None, ["dset", "dclear"])],
                      lambda o: (len(o.universes), [type(u).__name__ for u in o.universes], getattr(o, "color", None),
                                 sorted(k for k in vars(o) if not k.startswith("_"))))
                ctx.count("input_probes_on_the_base_class")

    # ... the same constructors fed with a container the LIBRARY handed out (the provenance of a container is not
    # its type: `Universe(vertices=other.vertices)`, `Vertex(links=v.links, universes=v.universes)`,
    # `Link(vertices=l.vertices)` - the caller still holds what the accessor returned)
    def b_uni_from_accessor(n):
        def build():
            vs, us, ls = fresh()
            src = Universe(vertices=vs[:n])
            VS = src.vertices
            return Universe(vertices=VS), [("vertices", VS)]

        return build

    def b_vertex_from_accessors(n):
        def build():
            vs, us, ls = fresh()
            for u in us[:n]:
                vs[1].add_to_universe(u)
            L, U = vs[1].links, vs[1].universes
            if not isinstance(U, list):
                U = list(U)  # (a frozenset cannot be mutated by the caller anyway)
            v = Vertex(links=L, universes=U)
            return (v, us), [("links", L), ("universes", U)]

        return build

    def b_link_from_accessor(n):
        def build():
            vs, us, ls = fresh()
            VS = zoo.MultiLink(vertices=([vs[0], vs[1], vs[0]] + vs)[:n]).vertices
            if not isinstance(VS, list):
                VS = list(VS)
            return zoo.MultiLink(vertices=VS), [("vertices", VS)]

        return build

    for n in range(4):
        check("Universe<-accessor", b_uni_from_accessor(n),
              lambda: [("vertices", None, ["append", "clear", "reverse", "pop", "setitem", "insert"])], lambda u: names(u.vertices))
        check("Vertex<-accessor", b_vertex_from_accessors(n),
              lambda: [("links", None, ["append", "clear", "reverse", "pop", "insert"]),
                       ("universes", None, ["append", "clear", "pop", "insert"])], r_vertex)
        check("Link<-accessor", b_link_from_accessor(n + 1),
              lambda: [("vertices", None, ["append", "clear", "reverse", "pop", "setitem", "insert"])], lambda l: names(l.vertices))
        ctx.count("input_probes_fed_with_accessor_results", 3)

    # Link(vertices=)
    def b_link(n):
        def build():
            vs, us, ls = fresh()
            VS = ([vs[0], vs[1], vs[0]] + vs)[:n]
            return zoo.MultiLink(vertices=VS), [("vertices", VS)]

        return build

    for n in range(5):
        check("Link", b_link(n), lambda: [("vertices", None, ["append", "clear", "reverse", "pop", "setitem", "insert"])],
              lambda l: names(l.vertices))

    # UniverseLaws(edge_whitelist=)
    def b_laws():
        wl = {Vertex: {Vertex: DirectedEdge}, Universe: {Vertex: UnDirectedEdge}}
        return UniverseLaws(edge_whitelist=wl), [("edge_whitelist", wl)]

    check("UniverseLaws", b_laws, lambda: [("edge_whitelist", None, MAP_MUTS)],
          lambda w: {repr(k): sorted(map(repr, v.items())) for k, v in w.edge_whitelist.items()})

    # ... in every combination of the four rule flags (the whitelist is copied whatever else the law set says), with
    # the flags by keyword and by position; whitelist keys related by subclassing
    def b_laws_flags(flags, positional, related):
        def build():
            wl = ({Vertex: {Vertex: DirectedEdge}, Universe: {Vertex: UnDirectedEdge}} if not related else
                  {Vertex: {Vertex: DirectedEdge, Universe: DirectedEdge}, Universe: {Vertex: UnDirectedEdge}, object: {object: DirectedEdge}})
            if positional:
                return UniverseLaws(wl, *flags), [("edge_whitelist", wl)]
            return UniverseLaws(edge_whitelist=wl, mixed_links=flags[0], cycles=flags[1], multipath=flags[2],
                                multiverse=flags[3]), [("edge_whitelist", wl)]

        return build

    for bits in range(16):
        flags = tuple(bool(bits >> k & 1) for k in range(4))
        check("UniverseLaws", b_laws_flags(flags, bits % 3 == 0, bits % 2 == 1), lambda: [("edge_whitelist", None, MAP_MUTS)],
              lambda w: {repr(k): sorted(map(repr, v.items())) for k, v in w.edge_whitelist.items()})
        ctx.count("law_sets_probed_per_flag_combination")

    def b_laws_proxy():
        import types

        wl = {Vertex: {Vertex: DirectedEdge}, Universe: {Vertex: UnDirectedEdge}}
        return UniverseLaws(edge_whitelist=types.MappingProxyType(wl)), [("edge_whitelist", wl)]

    check("UniverseLaws", b_laws_proxy, lambda: [("edge_whitelist", None, MAP_MUTS)],
          lambda w: {repr(k): sorted(map(repr, v.items())) for k, v in w.edge_whitelist.items()})

    def b_laws_rowtypes(kind):
        import collections
        import types

        def build():
            lower = {Vertex: DirectedEdge}
            upper = {Universe: UnDirectedEdge}
            if kind == "chainmap":
                row = collections.ChainMap(upper, lower)   # .copy() of a ChainMap shares every layer but the first
            elif kind == "ordered":
                row = collections.OrderedDict(list(lower.items()) + list(upper.items()))
            elif kind == "userdict":
                row = collections.UserDict(dict(lower, **{}))
            else:
                row = types.MappingProxyType(lower)
            wl = {Vertex: row, Universe: {Vertex: UnDirectedEdge}}
            return UniverseLaws(edge_whitelist=wl), [("edge_whitelist", wl), ("lower_layer", lower)]

        return build

    for kind in ("chainmap", "ordered", "userdict", "proxy_row"):
        check("UniverseLaws", b_laws_rowtypes(kind),
              lambda: [("edge_whitelist", None, ["setitem", "clear"]), ("lower_layer", None, ["dset2", "dclear"])],
              lambda w: {repr(k): sorted(map(repr, v.items())) for k, v in w.edge_whitelist.items()})

    def b_laws_empty():
        wl = {}
        return UniverseLaws(edge_whitelist=wl), [("edge_whitelist", wl)]

    check("UniverseLaws", b_laws_empty, lambda: [("edge_whitelist", None, ["setitem", "update"])],
          lambda w: {repr(k): sorted(map(repr, v.items())) for k, v in w.edge_whitelist.items()})

    # load_adj_dict
    def b_adjdict():
        vs, us, ls = fresh(False)
        row0 = [vs[1], vs[2]]
        adj = {vs[0]: row0, vs[1]: [vs[2]], vs[3]: []}
        return (adjlist.load_adj_dict(adj, DirectedEdge), vs), [("adjdict", adj), ("row", row0)]

    def r_adj(o):
        u, vs = o
        return (names(u.vertices), [names(helpers.neighbors(v)) for v in vs])

    check("load_adj_dict", b_adjdict, lambda: [("adjdict", None, ["dclear", "dpop"]), ("row", None, ["append", "clear", "reverse"])], r_adj)

    # load_adj_matrix
    def b_adjm():
        vs, us, ls = fresh(False)
        side = [vs[0], vs[1], vs[2]]
        row0 = [0, 1, 1]
        m = [row0, [0, 0, 1], [1, 0, 0]]
        return (adjmatrix.load_adj_matrix(m, side, DirectedEdge), vs), [("matrix", m), ("row", row0), ("side", side)]

    check("load_adj_matrix", b_adjm, lambda: [("matrix", None, ["clear", "reverse", "pop"]), ("row", None, ["clear", "reverse", "setitem0"]),
                                              ("side", None, ["clear", "reverse", "pop"])], r_adj)


_orig_mutate = mutate


def mutate(cont, kind, foreign):  # noqa: F811 - extends the kinds above with dict/row specific ones
    if kind == "dset":
        cont["color"] = "blue"
        cont["extra"] = 1
        return "mutated"
    if kind == "dclear":
        cont.clear()
        return "mutated"
    if kind == "dset2":
        cont[Link] = Link
        cont[Vertex] = Link
        return "mutated"
    if kind == "dpop":
        cont.pop(next(iter(cont)))
        return "mutated"
    if kind == "setitem0":
        cont[0] = 1 - cont[0]
        return "mutated"
    return _orig_mutate(cont, kind, foreign)


def run(ctx):
    rng = random.Random(ctx.seed * 40009 + ctx.shard * 31 + 12)
    quick = ctx.tier == "quick"
    npools = 700 if quick else 1500
    for i in range(npools):
        eng = histories.generate(rng, "C03", set(), rng.randint(10, 50), strict=False, nv=rng.randint(3, 4))
        pool = eng.pool
        if rng.random() < 0.5:
            # give some universe a law set carrying a whitelist
            from egverif import driver

            driver.execute(pool, ["mkw", "W9", 3])
        probe_returned(ctx, pool, rng, eng.executed)
        probe_siblings(ctx, pool, rng, eng.executed)
        for _ in range(4):
            probe_first_reads(ctx, pool, rng, eng.executed)
        if ctx.shard == 0 and i in (0, 7):
            ctx.sample({"pool_history": eng.executed[:30], "probes": "every accessor x caching mode x one random mutation"})
    for _ in range(10 if quick else 30):
        probe_inputs(ctx, rng)
    ctx.assumptions += [
        "only the exchanged container itself is attacked (objects inside it are shared by design)",
        "a TypeError/AttributeError from an immutable container counts as protected",
        "queries that raise on a degenerate graph are skipped (outside their domain)",
    ]


def replay(ctx, case):
    rng = random.Random(0)
    if case["kind"] == "input":
        probe_inputs(ctx, rng)
    else:
        eng = histories.replay(case["ops"], set())
        for s in range(40):
            if case.get("mode") == "sibling":
                probe_siblings(ctx, eng.pool, random.Random(s), case["ops"])
            elif case.get("mode") == "first_read":
                probe_first_reads(ctx, eng.pool, random.Random(s), case["ops"])
            else:
                probe_returned(ctx, eng.pool, random.Random(s), case["ops"])
    ctx.nontrivial("replay-a")
    ctx.nontrivial("replay-b")
