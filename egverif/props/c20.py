"""
C20 -- randgraph always returns a universe of exactly `count` well-formed vertices.
"""

from __future__ import annotations

import random

from edgegraph.builder import randgraph as rg
from edgegraph.structure import Universe

from egverif import oracles, zoo

RULE = (
    "cases = (count, edge class, connectivity, ensurelink, RNG state); full grid count 1..12 (1..60 thorough) x 4 "
    "two-ended classes x connectivity {default,0,1e-9,0.1,0.5,0.999,1} x ensurelink x seeds, plus scripted hostile RNG "
    "streams (random.randint/random.sample rebound to always-lowest, always-highest and alternating draws) that force extreme "
    "sample sizes.  Each result is inspected through the public accessors.  Non-trivial = count>=2 or default "
    "connectivity; distinct = distinct (count, class, connectivity, ensurelink, resulting adjacency)."
)

_EDGE = {**zoo.EDGE_CLASSES, **zoo.SPEC_ONLY_EDGE_CLASSES}
CLASSES = ["DirectedEdge", "UnDirectedEdge", "DSub", "OtherLink", "AbcEdge", "AbcUEdge"]
CONNS = [None, 0, 1e-9, 0.1, 0.5, 0.999, 1,
         # extreme but legal floats in [0, 1]: subnormals, the smallest normal, 1 - ulp, and float spellings of 0 / 1
         5e-324, 1e-310, 2.2250738585072014e-308, 1e-300, 0.9999999999999999, 0.0, 1.0]


def floors(ctx):
    q = ctx.tier == "quick"
    return {"evaluations": 5000 if q else 50000, "small_count_default_connectivity": 50,
            "hostile_stream_runs": 100, "reproducibility_checked": 500, "graphs_with_links": 1000,
            "large_count_runs": 50, "fresh_process_reproducibility_checks": 3, "forked_child_reproducibility_checks": 3,
            "runs_with_an_extreme_raw_draw": 1000, "seeded_pairs_run_in_a_worker_thread": 20,
            "dense_mid_size_runs": 200}


class ScriptedStream:
    """
    Scripted replacements for random.randint / random.sample: always the
    lowest, always the highest, or alternating draws.  sample() keeps the real
    contract (ValueError when k exceeds the population).
    """

    def __init__(self, mode):
        self.mode = mode
        self.n = 0

    def _hi(self):
        self.n += 1
        return self.mode == "max" or (self.mode == "alt" and self.n % 2 == 0)

    def randint(self, a, b):
        if a > b:
            raise ValueError("empty range for randint()")
        return b if self._hi() else a

    def sample(self, population, k, **kw):
        pop = list(population)
        if not 0 <= k <= len(pop):
            raise ValueError("Sample larger than population or is negative")
        return pop[len(pop) - k:] if self._hi() else pop[:k]

    # the other drawing functions of the random module, scripted the same way (a change may well draw through them)
    def choice(self, seq):
        seq = list(seq)
        if not seq:
            raise IndexError("Cannot choose from an empty sequence")
        return seq[-1] if self._hi() else seq[0]

    def choices(self, population, weights=None, *, cum_weights=None, k=1):
        return [self.choice(population) for _ in range(k)]

    def randrange(self, start, stop=None, step=1):
        r = range(start) if stop is None else range(start, stop, step)
        if not r:
            raise ValueError("empty range for randrange()")
        return r[-1] if self._hi() else r[0]

    def shuffle(self, x):
        if self._hi():
            x.reverse()

    def random(self):
        return 1.0 - 2.0 ** -53 if self._hi() else 0.0

    def uniform(self, a, b):
        return b if self._hi() else a


class SpikeRandom(random.Random):
    """
    A real seeded generator whose p-th raw draw is an EXTREME value the Mersenne Twister can produce like any
    other: getrandbits(k) == 2**k - 1 (or 0), random() == 1 - 2**-53 (or 0.0).  Every derived method (randint,
    sample, choice, shuffle, ...) is the stock one on top of these primitives, so rejection loops simply draw
    again.  "For every state of the generator" includes the states that yield such a word at this very call.
    """

    def __init__(self, seed, p, hi):
        super().__init__(seed)
        self._p, self._hi, self._n = p, hi, 0
        self.spiked = False

    def _spike(self):
        self._n += 1
        if self._n == self._p:
            self.spiked = True
            return True
        return False

    def getrandbits(self, k):
        real = super().getrandbits(k)
        if k > 0 and self._spike():
            return (1 << k) - 1 if self._hi else 0
        return real

    def random(self):
        real = super().random()
        if self._spike():
            return 1.0 - 2.0 ** -53 if self._hi else 0.0
        return real


_PATCHED = ("random", "getrandbits", "randint", "randrange", "sample", "choice", "choices", "shuffle", "uniform", "randbytes")


def run_spiked(ctx, count, cname, conn, ensure, seed, p, hi):
    sr = SpikeRandom(seed, p, hi)
    saved = {n: getattr(random, n) for n in _PATCHED}
    for n in _PATCHED:
        setattr(random, n, getattr(sr, n))
    try:
        case = {"count": count, "cls": cname, "conn": conn, "ensure": ensure, "seed": seed, "stream": None,
                "spike": [p, hi]}
        judge(ctx, count, cname, conn, ensure, f"seed {seed}, raw draw #{p} forced to its {'largest' if hi else 'smallest'} value", case)
        if sr.spiked:
            ctx.count("runs_with_an_extreme_raw_draw")
        return sr.spiked
    finally:
        for n, f in saved.items():
            setattr(random, n, f)


def adjacency(uni):
    out = []
    for v in uni.vertices:
        out.append([(type(l).__name__, getattr(l.vertices[0], "i", None), getattr(l.vertices[1], "i", None))
                    for l in v.links])
    return out


def judge(ctx, count, cname, conn, ensure, how, case):
    cls = _EDGE[cname]
    kwargs = dict(count=count, edge=cls, ensurelink=ensure)
    if conn is not None:
        kwargs["connectivity"] = conn
    res = oracles.outcome(rg.randgraph, **kwargs)
    ctx.evaluated()
    tagc = "default" if conn is None else ("zero" if conn == 0 else "one" if conn == 1 else "tiny" if conn < 1e-200 else "frac")

    def viol(mech, what):
        ctx.violation(mech, f"randgraph(count={count}, edge={cname}, connectivity={conn}, ensurelink={ensure}) "
                      f"[{how}]: {what}", case)

    if res[0] != "ok":
        small = ":count<=5" if count <= 5 else ""
        viol(f"raises:{res[1].__name__}:{tagc}{small}", f"raised {res[1].__name__}")
        return None
    uni = res[1]
    if not isinstance(uni, Universe):
        viol("not_a_universe", f"returned {type(uni).__name__}")
        return None
    vs = uni.vertices
    if len(vs) != count:
        viol(f"wrong_count:{tagc}", f"universe has {len(vs)} vertices")
        return None
    iset = sorted(getattr(v, "i", None) for v in vs) if all(isinstance(getattr(v, "i", None), int) for v in vs) else None
    if iset != list(range(count)):
        viol("i_attributes", f"i attributes are {[getattr(v, 'i', None) for v in vs]}")
    members = {id(v) for v in vs}
    nlinks = 0
    for v in vs:
        is_v1 = False
        for l in v.links:
            nlinks += 1
            if not isinstance(l, cls):
                viol("foreign_link_type", f"vertex i={v.i} carries a {type(l).__name__}")
                return None
            ends = l.vertices
            if len(ends) != 2 or any(e is None or id(e) not in members for e in ends):
                viol("link_end_outside_universe", f"link {type(l).__name__} has ends "
                     f"{[getattr(e, 'i', '?') for e in ends]} not all in the universe")
                return None
            if ends[0] is v:
                is_v1 = True
        if ensure and not is_v1:
            viol(f"ensurelink_violated:{tagc}", f"vertex i={v.i} is not the first end of any link")
            return None
    if nlinks:
        ctx.count("graphs_with_links")
    adj = adjacency(uni)
    if count >= 2 or conn is None:
        ctx.nontrivial(("g", count, cname, conn, ensure, str(adj)))
    if conn is None and count <= 5:
        ctx.count("small_count_default_connectivity")
    return adj


def run_seeded(ctx, count, cname, conn, ensure, seed, how=None):
    state = random.getstate()
    try:
        case = {"count": count, "cls": cname, "conn": conn, "ensure": ensure, "seed": seed, "stream": None, "thread": how}
        random.seed(seed)
        a1 = judge(ctx, count, cname, conn, ensure, f"random.seed({seed})", case)
        if a1 is not None:
            random.seed(seed)
            a2 = judge(ctx, count, cname, conn, ensure, f"random.seed({seed}) again", case)
            ctx.count("reproducibility_checked")
            if a2 is not None and a1 != a2:
                ctx.violation("not_reproducible" + (":in_worker_thread" if how else ""),
                              f"randgraph(count={count}, edge={cname}, connectivity={conn}, "
                              f"ensurelink={ensure}) after random.seed({seed}) gave {a1} then {a2}"
                              + (f" [called from a {how}]" if how else ""), case)
    finally:
        random.setstate(state)


def run_seeded_in_worker_thread(ctx, count, cname, conn, ensure, seed):
    """The same seeded pair, called from a thread that is not the main thread (a worker of a pool, a GUI callback)."""
    import threading

    box = []

    def work():
        try:
            run_seeded(ctx, count, cname, conn, ensure, seed, how="worker thread")
        except BaseException as exc:  # noqa: BLE001
            box.append(exc)

    t = threading.Thread(target=work, name="egverif-c20-worker")
    t.start()
    t.join()
    ctx.count("seeded_pairs_run_in_a_worker_thread")
    if box:
        raise box[0]


def run_hostile(ctx, count, cname, conn, ensure, mode):
    sr = ScriptedStream(mode)
    names = ("randint", "sample", "choice", "choices", "randrange", "shuffle", "random", "uniform")
    saved = tuple(getattr(random, n) for n in names)
    for n in names:
        setattr(random, n, getattr(sr, n))
    try:
        case = {"count": count, "cls": cname, "conn": conn, "ensure": ensure, "seed": None, "stream": mode}
        judge(ctx, count, cname, conn, ensure, f"scripted RNG stream '{mode}'", case)
        ctx.count("hostile_stream_runs")
    finally:
        for n, f in zip(names, saved):
            setattr(random, n, f)


FRESH = r"""
import json, random, sys
from edgegraph.builder import randgraph as rg
from edgegraph.structure import DirectedEdge, UnDirectedEdge
cfg = json.loads(sys.argv[1])
cls = {"DirectedEdge": DirectedEdge, "UnDirectedEdge": UnDirectedEdge}[cfg["cls"]]
def adj(u):
    return [[(type(l).__name__, l.vertices[0].i, l.vertices[1].i) for l in v.links] for v in u.vertices]
out = []
for _ in range(3):
    random.seed(cfg["seed"])          # no library object has been created before the first of these calls
    out.append(adj(rg.randgraph(count=cfg["count"], edge=cls, ensurelink=cfg["ensure"])))
print(json.dumps(out))
"""


def fresh_process_reproducibility(ctx, count, cname, ensure, seed):
    """random.seed(s); randgraph(...) as the very first use of the library in a new interpreter, three times."""
    import json
    import subprocess
    import sys

    from egverif import common

    cfg = {"count": count, "cls": cname, "ensure": ensure, "seed": seed}
    r = subprocess.run([sys.executable, "-B", "-c", FRESH, json.dumps(cfg)], capture_output=True, text=True, timeout=300,
                       env=dict(__import__("os").environ, PYTHONPATH=common.repo_dir()))
    ctx.evaluated()
    ctx.count("fresh_process_reproducibility_checks")
    case = dict(cfg, fresh=True, conn=None, stream=None)
    if r.returncode != 0:
        ctx.violation("fresh_process:raised", f"randgraph in a fresh interpreter failed: {r.stderr[-300:]}", case)
        return
    a, b, c = json.loads(r.stdout)
    ctx.nontrivial(("fresh", count, cname, ensure, seed, str(a)))
    if not (a == b == c):
        which = "first_call_differs" if b == c else "calls_differ"
        ctx.violation(f"not_reproducible:fresh_process:{which}", f"random.seed({seed}); randgraph(count={count}, {cname}, "
                      f"ensurelink={ensure}) as the first library call of a new interpreter gave {a}, then {b} and {c}", case)


def forked_child_reproducibility(ctx, count, cname, ensure, seed):
    """
    random.seed(s); randgraph(...) as the FIRST call in a process that was fork()ed after the library had been imported
    (multiprocessing's default start method on Linux, pre-fork servers): same graph as in the parent, and as the
    second equally seeded call in the child.
    """
    import json
    import os
    import threading

    case = {"count": count, "cls": cname, "ensure": ensure, "seed": seed, "forked": True, "conn": None, "stream": None}
    if threading.active_count() != 1:
        return  # (never the case in these runs: forking a multi-threaded interpreter is not what is being judged)
    cls = _EDGE[cname]
    state = random.getstate()
    try:
        random.seed(seed)
        parent = oracles.outcome(lambda: adjacency(rg.randgraph(count=count, edge=cls, ensurelink=ensure)))
    finally:
        random.setstate(state)
    if parent[0] != "ok":
        return
    rfd, wfd = os.pipe()
    pid = os.fork()
    if pid == 0:  # child: nothing but the two seeded calls, then leave without running any clean-up of the parent
        code = 0
        try:
            os.close(rfd)
            out = []
            for _ in range(2):
                random.seed(seed)
                out.append(adjacency(rg.randgraph(count=count, edge=cls, ensurelink=ensure)))
            os.write(wfd, json.dumps(out).encode())
        except BaseException as exc:  # noqa: BLE001
            try:
                os.write(wfd, json.dumps({"raised": type(exc).__name__}).encode())
            except OSError:
                code = 3
        finally:
            os._exit(code)
    os.close(wfd)
    chunks = []
    while True:
        b = os.read(rfd, 1 << 16)
        if not b:
            break
        chunks.append(b)
    os.close(rfd)
    os.waitpid(pid, 0)
    ctx.evaluated()
    ctx.count("forked_child_reproducibility_checks")
    try:
        got = json.loads(b"".join(chunks).decode())
    except ValueError:
        raise RuntimeError("forked child wrote nothing readable") from None
    want = json.loads(json.dumps(parent[1]))
    ctx.nontrivial(("forked", count, cname, ensure, seed, str(want)))
    if isinstance(got, dict):
        ctx.violation("forked_child:raised:" + got["raised"], f"randgraph in a forked child raised {got['raised']}", case)
    elif not (got[0] == got[1] == want):
        which = "first_call_differs" if got[1] == want else "calls_differ"
        ctx.violation(f"not_reproducible:forked_child:{which}", f"random.seed({seed}); randgraph(count={count}, {cname}, "
                      f"ensurelink={ensure}) gave {want} in this process, but {got[0]} then {got[1]} as the first calls of a "
                      "child forked after the import", case)


def run(ctx):
    quick = ctx.tier == "quick"
    if ctx.shard in (0, 5):
        for n, (count, cname, ensure) in enumerate(((15, "DirectedEdge", True), (6, "UnDirectedEdge", False), (9, "DirectedEdge", False))):
            forked_child_reproducibility(ctx, count, cname, ensure, 4048 + n + ctx.seed)
    if ctx.shard == 0:
        for n, (count, cname, ensure) in enumerate(((15, "DirectedEdge", True), (6, "UnDirectedEdge", False), (40, "DirectedEdge", True))):
            fresh_process_reproducibility(ctx, count, cname, ensure, 2024 + n + ctx.seed)
    counts = list(range(1, 13)) if quick else list(range(1, 31)) + [40, 60]
    nseeds = ctx.n(12)
    base = ctx.seed * 100000 + ctx.shard * 1000
    k = 0
    for count in counts:
        for cname in CLASSES:
            for conn in CONNS:
                for ensure in (True, False):
                    for s in range(nseeds):
                        run_seeded(ctx, count, cname, conn, ensure, base + s)
                    if k % 4 == 1:
                        run_seeded_in_worker_thread(ctx, count, cname, conn, ensure, base + 77)
                    if ctx.shard == 0:
                        for mode in ("min", "max", "alt"):
                            run_hostile(ctx, count, cname, conn, ensure, mode)
                    if count <= 8 and (k + ctx.shard) % 3 == 0:
                        # every position of the raw stream in turn takes an extreme value
                        for hi in (True, False):
                            p = 1
                            while p <= 200 and run_spiked(ctx, count, cname, conn, ensure, base + count, p, hi):
                                p += 1
                    k += 1
                    if k in (7, 300) and ctx.shard == 0:
                        ctx.sample({"count": count, "edge": cname, "connectivity": conn, "ensurelink": ensure,
                                    "seeds": [base, base + nseeds - 1], "hostile_streams": ["min", "max", "alt"]})
    # scripted streams on mid-size graphs too: always-the-first / always-the-last picks pile every link onto a few
    # vertices (degree saturation, hubs)
    if ctx.shard == 0:
        for count in (13, 17, 20, 24, 30, 45):
            for cname in CLASSES[:2]:
                for conn in (None, 1.0, 0.5):
                    for ensure in (True, False):
                        for mode in ("min", "max", "alt"):
                            run_hostile(ctx, count, cname, conn, ensure, mode)
    # dense graphs of a few dozen vertices: the per-vertex draw ranges over dozens of values there, so the tails of
    # whatever distribution the neighbour count is drawn from get sampled
    for count in ((40, 80) if quick else (20, 40, 80, 120)):
        for conn in (1.0, 0.9):
            for ensure in (False, True):
                for s in range(ctx.n(25 if quick else 60)):
                    run_seeded(ctx, count, CLASSES[s % len(CLASSES)], conn, ensure, base + 500 + s)
                    ctx.count("dense_mid_size_runs")
    # counts around CPython's small-int cache and beyond (cheap: a handful of runs each)
    if ctx.shard == 0:
        for count in (255, 256, 257, 300, 1000):
            for cname in ("DirectedEdge", "UnDirectedEdge"):
                for conn in (None, 0, 0.01, 1):
                    if conn == 1 and count > 300:
                        continue
                    for ensure in (True, False):
                        run_seeded(ctx, count, cname, conn, ensure, base + count)
                        ctx.count("large_count_runs")
    # the README call: default everything
    for s in range(20):
        state = random.getstate()
        random.seed(base + s)
        try:
            res = oracles.outcome(rg.randgraph)
            ctx.evaluated()
            if res[0] != "ok" or len(res[1].vertices) != 15:
                ctx.violation("default_call", "randgraph() with all defaults failed", {"default": True, "seed": base + s})
        finally:
            random.setstate(state)
    ctx.assumptions += ["count >= 1; connectivity in [0,1] or default; RNG reached only through the random module"]


def replay(ctx, case):
    if case.get("fresh"):
        fresh_process_reproducibility(ctx, case["count"], case["cls"], case["ensure"], case["seed"])
        ctx.nontrivial("replay-a")
        ctx.nontrivial("replay-b")
        return
    if case.get("forked"):
        forked_child_reproducibility(ctx, case["count"], case["cls"], case["ensure"], case["seed"])
        ctx.nontrivial("replay-a")
        ctx.nontrivial("replay-b")
        return
    if case.get("default"):
        random.seed(case["seed"])
        res = oracles.outcome(rg.randgraph)
        ctx.evaluated()
        if res[0] != "ok" or len(res[1].vertices) != 15:
            ctx.violation("default_call", "randgraph() with all defaults failed", case)
    elif case.get("spike"):
        run_spiked(ctx, case["count"], case["cls"], case["conn"], case["ensure"], case["seed"], case["spike"][0], case["spike"][1])
    elif case.get("stream"):
        run_hostile(ctx, case["count"], case["cls"], case["conn"], case["ensure"], case["stream"])
    elif case.get("thread"):
        run_seeded_in_worker_thread(ctx, case["count"], case["cls"], case["conn"], case["ensure"], case["seed"])
    else:
        run_seeded(ctx, case["count"], case["cls"], case["conn"], case["ensure"], case["seed"])
    ctx.nontrivial("replay-a")
    ctx.nontrivial("replay-b")
