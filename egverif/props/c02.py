"""
C02 -- universe membership is symmetric, ordered and duplicate-free after every history.
"""

from __future__ import annotations

from egverif import histories
from egverif.props import c01

RULE = (
    "cases = histories of Universe.add_vertex/remove_vertex, Vertex.add_to_universe/remove_from_universe, "
    "Vertex(universes=[...duplicates...]) and Universe(vertices=[...duplicates...]) over 2-5 vertices and 1-3 universes, "
    "universes being members of universes and of themselves.  Part 1: from 3 base states every op with every argument "
    "choice to depth 2 (3 in thorough); part 2: random histories of 40-120 ops.  After every op: model-free symmetry "
    "and no-duplicate invariants over everything reachable, Universe.vertices / Vertex.universes order against the "
    "lock-step membership model, and a non-member removal must raise and leave the whole snapshot unchanged.  "
    "Non-trivial = history with a re-add after removal, a non-member removal, or a nested/self membership; distinct = "
    "distinct op sequences."
)
CHECKS = {"C02"}

FLOOR_KEYS = [f"op:{op}:{m}:{n}" for op in ("u_add", "u_rm", "v_add_uni", "v_rm_uni") for m in ("member", "nonmember")
              for n in ("plain", "nested", "self")]


def floors(ctx):
    f = {"evaluations": 20000 if ctx.tier == "quick" else 200000, "histories": 1000, "ops_raised": 500,
         "op:mkv:unis_dup": 10, "op:mku:dupverts:autolaws": 10, "bursts": 500}
    for k in FLOOR_KEYS:
        f[k] = 1
    return f


def run(ctx):
    c01.run(ctx, profile="C02", checks=CHECKS, strict=False, nrand=2500 if ctx.tier == "quick" else 8000,
            nontrivial=nontrivial_ops)
    ctx.assumptions[:] = ["objects compare by identity; invariants evaluated at client-call boundaries only",
                          "a member's position in Universe.vertices is the time it last joined"]


def nontrivial_ops(before, after):
    keys = ("nonmember", "nested", "self", "dup")
    return any(v > before.get(k, 0) and any(x in k for x in keys) for k, v in after.items())


def replay(ctx, case):
    eng = histories.replay(case["ops"], CHECKS, False)
    ctx.evaluated(max(1, eng.evals))
    if eng.findings:
        histories.report(ctx, eng, CHECKS, False)
    ctx.nontrivial("replay-a")
    ctx.nontrivial("replay-b")
