"""
C11 -- adjacency builders build exactly the described graph; bad input rejected whole.
"""

from __future__ import annotations

import collections
import random

from edgegraph.builder import adjlist, adjmatrix
from edgegraph.structure import DirectedEdge, Link, Universe, Vertex
from edgegraph.traversal import helpers

from egverif import driver, histories, observe, oracles, zoo

RULE = (
    "cases = (pool with prior links/universes reached by a random structure history or a fresh pool, builder, link "
    "class, adjacency input).  Dict inputs: 0-8 keys (40 in thorough), empty rows, self entries, repeated entries, "
    "rows given as list/tuple/generator; matrix inputs: size 0-8, cells drawn from truthy {1,True,'x',2.5,[0],object()} "
    "and falsy {0,None,'',[],0.0} values, duplicate vertices in the side array; error inputs: non-square matrices and "
    "side arrays of the wrong length.  After the call the result universe's member order, every vertex's ordered new "
    "links (class, orientation, creation order), the untouched prefix of prior links/universes, and on fresh vertices "
    "the read-back through neighbors()/find_links are compared with the input.  Non-trivial = input with >=1 pair; "
    "distinct = distinct (builder, class, input shape, prior-state shape)."
)

import decimal
import enum
import fractions


class Road(enum.Enum):
    """Members of a plain Enum are truthy whatever their value is."""

    NONE = 0
    UNNAMED = ""
    PAVED = 2


class Lanes(enum.IntEnum):
    """... whereas IntEnum / Flag members follow their value."""

    ZERO = 0
    TWO = 2


class Perm(enum.Flag):
    NOTHING = 0
    READ = 1


# (after the first eight: the special values of the numeric tower - all of them truthy - and what weight / capacity /
# distance matrices hold: infinities, NaN, tiny and huge magnitudes, exact rationals and decimals, complex numbers)
TRUTHY = [1, True, "x", 2.5, [0], "OBJ", -1, (0,),
          float("inf"), float("-inf"), float("nan"), decimal.Decimal("Infinity"), decimal.Decimal("0.1"),
          fractions.Fraction(1, 3), 5e-324, 1e308, 10 ** 30, -0.5, 1j, "0", "False", b"\x00",
          Road.NONE, Road.UNNAMED, Road.PAVED, Lanes.TWO, Perm.READ]
FALSY = [0, None, "", [], 0.0, False, (), Lanes.ZERO, Perm.NOTHING, decimal.Decimal(0), -0.0, 0j, fractions.Fraction(0), b"", range(0)]
CLASSES = ["DirectedEdge", "UnDirectedEdge", "DSub", "USub", "OtherLink", "TwoEndedLink", "RenamedEdge", "PosOnlyEdge", "MixEdge", "FalsyEdge"]


def floors(ctx):
    q = ctx.tier == "quick"
    return {"evaluations": 1500 if q else 15000, "links_checked": 5000 if q else 50000, "self_entries": 100,
            "repeated_entries": 100, "empty_rows": 100, "generator_rows": 50, "cases_with_prior_links": 200,
            "readback_cases": 300, "error_inputs": 100, "side_array_duplicates": 30, "exotic_truthy_cells": 200,
            "big_inputs": 4, "ragged_matrices_with_n_squared_cells": 50,
            "rows_that_are_iterable_vertices": 100, "matrices_with_packed_rows": 200}


def cell_value(c):
    kind, i = c
    v = (TRUTHY if kind == "t" else FALSY)[i]
    return object() if v == "OBJ" else v


def expected_from_pairs(pairs, member_order):
    per_vertex = collections.defaultdict(list)
    for n, (a, b) in enumerate(pairs):
        per_vertex[a].append((a, b, n))
        if b != a:
            per_vertex[b].append((a, b, n))
    return per_vertex, list(dict.fromkeys(member_order))


def run_case(ctx, case):
    """case: {"history": ops, "builder": "dict"|"matrix", "cls": name, "adj"/"matrix"/"side": ..., "rowkind": ...}"""
    eng = histories.replay(case["history"], set())
    pool = eng.pool
    cls = zoo.EDGE_CLASSES[case["cls"]]
    vnames = [n for n, o in pool.objs.items() if isinstance(o, Vertex)]
    pre = observe.snapshot(pool)
    pre_links = {n: list(pool.get(n).links) for n in vnames}
    pre_unis = {n: list(pool.get(n).universes) for n in vnames}
    prior = any(pre_links[n] for n in vnames)
    if prior:
        ctx.count("cases_with_prior_links")
    builder = case["builder"]

    def viol(mech, what):
        ctx.violation(f"{builder}:{mech}", f"{what}; input={ {k: case[k] for k in case if k != 'history'} }", case)

    # ---- build the input -------------------------------------------------
    if builder == "dict":
        adj = {}
        pairs, order = [], []
        for k, (key, vals) in enumerate(case["adj"]):
            objs = [pool.get(v) for v in vals]
            rk = case["rowkind"][k % len(case["rowkind"])]
            row = objs if rk == "list" else tuple(objs) if rk == "tuple" else (o for o in objs)
            if rk == "gen":
                ctx.count("generator_rows")
            elif rk == "cluster":
                # the row container is itself a vertex (a cluster that yields its members): still "an iterable of vertices"
                row = zoo.ClusterVertex(members=objs, attributes={"idx": 1000 + k})
                ctx.count("rows_that_are_iterable_vertices")
            elif rk == "dictkeys":
                row = dict.fromkeys(objs).keys() if len({id(o) for o in objs}) == len(objs) else objs
            adj[pool.get(key)] = row
            order.append(key)
            if not vals:
                ctx.count("empty_rows")
            if len(set(vals)) < len(vals):
                ctx.count("repeated_entries")
            for v in vals:
                pairs.append((key, v))
                order.append(v)
                if v == key:
                    ctx.count("self_entries")
        res = oracles.outcome(adjlist.load_adj_dict, adj, cls)
        bad = None
    else:
        side = [pool.get(v) for v in case["side"]]
        matrix = [[cell_value(c) for c in row] for row in case["matrix"]]
        rowtype = case.get("rowtype", "list")
        if rowtype != "list":
            # rows of other sequence types; packed rows (bytes, bytearray, array) hold small ints, so a truthy cell
            # is any non-zero byte - 1, 2, 7, 255 - and a falsy one is 0
            import array

            packed = [[((1, 2, 7, 255, 128)[(i * 31 + j * 7 + c[1]) % 5] if c[0] == "t" else 0) for j, c in enumerate(row)]
                      for i, row in enumerate(case["matrix"])]
            conv = {"tuple": lambda i: tuple(matrix[i]), "bytes": lambda i: bytes(packed[i]),
                    "bytearray": lambda i: bytearray(packed[i]), "array": lambda i: array.array("B", packed[i])}[rowtype]
            matrix = [conv(i) for i in range(len(matrix))]
            if rowtype != "tuple":
                ctx.count("matrices_with_packed_rows")
        n = len(matrix)
        bad = None
        if len(side) != n:
            bad = "side_length"
        elif any(len(r) != n for r in matrix):
            bad = "not_square"
            if sum(len(r) for r in matrix) == n * n:
                ctx.count("ragged_matrices_with_n_squared_cells")
        pairs, order = [], list(case["side"])
        if len(set(case["side"])) < len(case["side"]):
            ctx.count("side_array_duplicates")
        if bad is None:
            for i, row in enumerate(case["matrix"]):
                for j, c in enumerate(row):
                    if c[0] == "t":
                        pairs.append((case["side"][i], case["side"][j]))
                        if i == j:
                            ctx.count("self_entries")
                        if c[1] > 1:
                            ctx.count("exotic_truthy_cells")
        res = oracles.outcome(adjmatrix.load_adj_matrix, matrix, side, cls)
    ctx.evaluated()
    post = observe.snapshot(pool)

    # ---- error inputs ------------------------------------------------------
    if bad is not None:
        ctx.count("error_inputs")
        ctx.nontrivial(("err", bad, len(case["matrix"]), len(case["side"])))
        if not (res[0] == "exc" and res[1] is ValueError):
            viol(f"bad_input_accepted:{bad}", f"expected ValueError, got {res}")
        elif post != pre:
            viol(f"bad_input_touched_graph:{bad}", histories._diff(pre, post))
        return
    if res[0] != "ok":
        viol(f"raised:{res[1].__name__}", "the builder raised on well-formed input")
        return
    uni = res[1]
    if not isinstance(uni, Universe) or not pool.name(uni).startswith("?"):
        viol("result_not_a_new_universe", f"returned {pool.name(uni)}")
        return
    per_vertex, members = expected_from_pairs(pairs, order)
    got_members = pool.names(uni.vertices)
    if got_members != members:
        viol("member_order", f"universe members {got_members}, first-mention order is {members}")
        return
    if pairs:
        ctx.nontrivial((builder, case["cls"], str(pairs), prior))
    # ---- per-vertex new links ----------------------------------------------
    new_objs = {}
    for vn in vnames:
        v = pool.get(vn)
        links = list(v.links)
        k = len(pre_links[vn])
        if not oracles.same_identities(links[:k], pre_links[vn]):
            viol("prior_links_disturbed", f"{vn}.links no longer starts with its prior links")
            return
        new = links[k:]
        exp = per_vertex.get(vn, [])
        if len(new) != len(exp):
            clause = "missing_link" if len(new) < len(exp) else "extra_link"
            if any(a == b for a, b, _ in exp) and len(new) < len(exp):
                clause += ":self_entry"
            viol(clause, f"{vn} gained {len(new)} links, the input lists {len(exp)} pairs involving it")
            return
        for l, (a, b, n) in zip(new, exp):
            ctx.count("links_checked")
            if type(l) is not cls:
                viol("wrong_link_class", f"new link at {vn} is a {type(l).__name__}, requested {case['cls']}")
                return
            ends = pool.names(l.vertices)
            if ends != [a, b]:
                clause = "reversed_orientation" if ends == [b, a] else "wrong_ends_or_order"
                viol(clause, f"{vn}: link #{n} has ends {ends}, input pair is {a}->{b}; new links at {vn}: "
                     f"{[pool.names(x.vertices) for x in new]}, expected {[(x, y) for x, y, _ in exp]}")
                return
            if n in new_objs and new_objs[n] is not l:
                viol("pair_built_twice", f"pair #{n} {a}->{b} is represented by two different link objects")
                return
            new_objs[n] = l
        # universes: prior ones kept, the new one appended iff member
        us = list(v.universes)
        want = pre_unis[vn] + ([uni] if vn in members else [])
        if not oracles.same_identities(us, want):
            viol("universes_disturbed", f"{vn}.universes = {pool.names(us)}, expected prior + new universe iff member")
            return
    if len({id(l) for l in new_objs.values()}) != len(pairs):
        viol("link_count", f"{len(set(map(id, new_objs.values())))} distinct new links for {len(pairs)} pairs")
        return
    # everything else untouched
    for name, val in pre.items():
        if val[0] == "L" and post[name] != val:
            viol("prior_link_changed", f"{name}: {val} -> {post[name]}")
            return
        if val[0] == "U" and (post[name][3] != val[3] or post[name][4] != val[4]):
            viol("prior_universe_changed", f"{name}: {val} -> {post[name]}")
            return
        if val[0] == "W" and post[name] != val:
            viol("prior_laws_changed", f"{name}: {val} -> {post[name]}")
            return
    # ---- read-back on fresh vertices -----------------------------------------
    if not prior:
        ctx.count("readback_cases")
        directed = issubclass(cls, DirectedEdge)
        for vn in members:
            v = pool.get(vn)
            nb = oracles.outcome(helpers.neighbors, v, oracles.FORWARD, oracles.NEIGHBOR, None)
            if directed:
                exp = [b for a, b in pairs if a == vn]
                ok = nb[0] == "ok" and pool.names(nb[1]) == exp
            else:
                exp = sorted([b for a, b in pairs if a == vn] + [a for a, b in pairs if b == vn and a != vn])
                ok = nb[0] == "ok" and sorted(pool.names(nb[1])) == exp
            if not ok:
                viol("readback_neighbors", f"neighbors({vn}) = {pool.names(nb[1]) if nb[0] == 'ok' else nb[1].__name__}, "
                     f"input adjacency gives {exp}")
                return
            for wn in members:
                fl = oracles.outcome(helpers.find_links, v, pool.get(wn), True, oracles.NEIGHBOR, None)
                if directed:
                    k = sum(1 for a, b in pairs if a == vn and b == wn)
                else:
                    k = sum(1 for a, b in pairs if {a, b} == {vn, wn})
                if fl[0] != "ok" or len(fl[1]) != k:
                    viol("readback_find_links", f"find_links({vn},{wn}) has {len(fl[1]) if fl[0] == 'ok' else fl[1].__name__} "
                         f"links, input lists {k}")
                    return


def gen_case(rng, big=False):
    fresh = rng.random() < 0.5
    if fresh:
        nv = rng.randint(1, 6 if not big else 40)
        history = [["mkv", f"V{i}", rng.choice(["Vertex", "VSub", "FalsyVertex", "EmptyVertex"]), [], []] for i in range(nv)]
        if rng.random() < 0.3:
            history.append(["mku", "U0", [], None])
        vnames = [f"V{i}" for i in range(nv)] + (["U0"] if len(history) > nv else [])
    else:
        eng = histories.generate(rng, "C03", set(), rng.randint(5, 40), strict=True, nv=rng.randint(3, 5))
        history = eng.executed
        vnames = [n for n, o in eng.pool.objs.items() if isinstance(o, Vertex)]
    cls = rng.choice(CLASSES)
    if rng.random() < 0.5:
        keys = rng.sample(vnames, rng.randint(0, min(len(vnames), 8 if not big else 40)))
        adj = []
        for k in keys:
            r = rng.random()
            nvals = 0 if r < 0.2 else rng.randint(1, 4)
            vals = [k if rng.random() < 0.15 else rng.choice(vnames) for _ in range(nvals)]
            if vals and rng.random() < 0.2:
                vals.append(vals[0])
            adj.append([k, vals])
        return {"history": history, "builder": "dict", "cls": cls, "adj": adj,
                "rowkind": [rng.choice(["list", "tuple", "gen", "cluster", "dictkeys"]) for _ in range(3)]}
    n = rng.randint(0, min(8 if not big else 30, max(1, len(vnames) + 1)))
    side = [rng.choice(vnames) for _ in range(n)] if rng.random() < 0.15 and vnames else rng.sample(vnames, min(n, len(vnames)))
    n = len(side)
    dens = rng.choice([0.1, 0.3, 0.6, 1.0])
    matrix = [[["t", rng.randrange(len(TRUTHY))] if rng.random() < dens else ["f", rng.randrange(len(FALSY))]
               for _ in range(n)] for _ in range(n)]
    r = rng.random()
    if r < 0.08 and n:
        matrix[rng.randrange(n)].append(["t", 0])  # not square
    elif r < 0.14 and n:
        matrix[rng.randrange(n)].pop()
    elif r < 0.2:
        side = side + [rng.choice(vnames)] if vnames else side  # wrong side length
    elif r < 0.24 and n:
        matrix.pop()
    elif r < 0.32 and n >= 2:
        # ragged, but the cell count is still n*n: cells moved from one row to another (rows 3+1, 0+4, 2+3+4, ...)
        for _ in range(rng.randint(1, 2)):
            i, j = rng.sample(range(n), 2)
            k = rng.randint(1, max(1, len(matrix[i])))
            moved, matrix[i] = matrix[i][len(matrix[i]) - k:], matrix[i][:len(matrix[i]) - k]
            matrix[j] = matrix[j] + moved
    return {"history": history, "builder": "matrix", "cls": cls, "side": side, "matrix": matrix,
            "rowtype": rng.choice(["list", "list", "tuple", "bytes", "bytearray", "array"])}


def big_cases():
    """Sizes around 256/257 and beyond ("any size"): diagonal, repeated and dense entries."""
    r = random.Random(1111)
    for n in (257, 300):
        history = [["mkv", f"V{i}", "Vertex", [], []] for i in range(n)]
        names = [f"V{i}" for i in range(n)]
        matrix = [[["t", r.randrange(len(TRUTHY))] if (i == j or r.random() < 0.01) else ["f", r.randrange(len(FALSY))]
                   for j in range(n)] for i in range(n)]
        yield {"history": history, "builder": "matrix", "cls": r.choice(["DirectedEdge", "USub"]), "side": names, "matrix": matrix}
        adj = [[names[i], [names[i], names[(i * 3 + 1) % n], names[(i * 3 + 1) % n]]] for i in range(n)]
        yield {"history": history, "builder": "dict", "cls": r.choice(["DSub", "UnDirectedEdge"]), "adj": adj, "rowkind": ["list", "gen", "tuple"]}


def run(ctx):
    rng = random.Random(ctx.seed * 77773 + ctx.shard * 19 + 11)
    quick = ctx.tier == "quick"
    if ctx.shard == 0:
        for case in big_cases():
            run_case(ctx, case)
            ctx.count("big_inputs")
    for i in range(ctx.n(8000 if quick else 20000)):
        case = gen_case(rng, big=(not quick and i % 10 == 0))
        run_case(ctx, case)
        if ctx.shard == 0 and i in (2, 40, 41):
            ctx.sample({k: (v if k != "history" else v[:15]) for k, v in case.items()})
    ctx.assumptions += [
        "matrix cells are judged by Python truthiness; 'OBJ' stands for a fresh object()",
        "creation order is observed through each vertex's ordered links",
    ]


def replay(ctx, case):
    run_case(ctx, case)
    ctx.nontrivial("replay-a")
    ctx.nontrivial("replay-b")
