"""
C13 -- read-only operations never change the graph, even when a user callback raises.
Level: fault enumeration (every invocation index of every callback).
"""

from __future__ import annotations

import copy
import random

from edgegraph.output import nrpickler, plaintext, plantuml
from edgegraph.output import pyvis as egpyvis
from edgegraph.structure import DirectedEdge, Link, TwoEndedLink, UnDirectedEdge, Universe, Vertex
from edgegraph.structure.base import BaseObject
from edgegraph.structure.universe import UniverseLaws
from edgegraph.traversal import breadthfirst, depthfirst, helpers

from egverif import graphs, oracles, trav, zoo
from egverif.common import InjectedFault

RULE = (
    "cases = (graph spec, read-only entry point, callback, fault index k, caching off/on).  For every entry point "
    "(neighbors, find_links, bft/ibft, dft_recursive/idft_recursive, dft_iterative/idft_iterative, bfs, dfs_recursive, "
    "dfs_iterative, basic_render, render_to_plantuml_src, make_pyvis_net, pyvis_render_customizable, nrpickler.dumps) "
    "a fault-free run is bracketed by deep snapshots (accessors + vars() name sets + public attribute values of every "
    "object); then for every callback of the entry point (filterfunc, ff_via, ff_result, rfunc, sort, rvfunc, refunc, "
    "user_render_func) a counting run measures its K invocations and for EVERY k in 1..K the callback is armed to raise "
    "at its k-th invocation, the call is made, the snapshot must be unchanged however the call ended, and the call is "
    "repeated with the same (disarmed) callable and must give the fault-free answer.  Besides the harness' own "
    "exception, first/middle/last k are repeated with exception types a library may catch (StopIteration, "
    "AttributeError, KeyError, ...) and with types outside the Exception hierarchy (KeyboardInterrupt, SystemExit, "
    "GeneratorExit, a BaseException subclass).  Graphs have 3-8 vertices (20 in "
    "thorough) so that all k are enumerated.  Non-trivial = a fault actually propagated out of the call; distinct = "
    "distinct (graph shape, entry point, callback, k, caching)."
)


class InjectedBaseFault(BaseException):
    """A fault outside the Exception hierarchy (as KeyboardInterrupt, SystemExit, asyncio.CancelledError are)."""


# exceptions that `except Exception` does not see: a user interrupt or an exit request arriving inside a callback
BASE_KINDS = [InjectedBaseFault, KeyboardInterrupt, SystemExit, GeneratorExit]
FAULT_KINDS = [InjectedFault, StopIteration, AttributeError, AssertionError, KeyError, IndexError, TypeError, ValueError] + BASE_KINDS


def outcome_b(fn, *a, **kw):
    """oracles.outcome that also reports the injected non-Exception kinds (and nothing else outside Exception)."""
    try:
        return oracles.outcome(fn, *a, **kw)
    except BaseException as exc:  # noqa: BLE001
        if type(exc) in BASE_KINDS:
            return ("exc", type(exc))
        raise



class Armed:
    """Callback wrapper whose identity never changes; raises at its k-th invocation when armed."""

    def __init__(self, fn):
        self.fn = fn
        self.calls = 0
        self.fault_at = None
        self.kind = InjectedFault

    def arm(self, k, kind=InjectedFault):
        self.calls = 0
        self.fault_at = k
        self.kind = kind

    def disarm(self):
        self.calls = 0
        self.fault_at = None

    def __call__(self, *a, **kw):
        self.calls += 1
        if self.fault_at is not None and self.calls == self.fault_at:
            raise self.kind(f"fault at invocation {self.calls}")
        return self.fn(*a, **kw)


# pure base callbacks -----------------------------------------------------------
def f_via(e, v):
    return getattr(e, "tag", 0) % 3 != 0


def f_res(v):
    return v.idx % 2 == 0


def f_link(e):
    return getattr(e, "tag", 0) % 2 == 0


def f_render(v):
    return f"n{v.idx}"


def f_sort(v):
    return -v.idx


def f_redge(e):
    return f"e{e.eidx}"


def f_urf(vertex, options):
    return f"object N{vertex.idx} <<{type(vertex).__name__}>> {{\n}}\n"


def puml_table(urf):
    base = {"type": "object", "show_attrs": ["idx"], "title_format": "N{idx}", "user_render_func": urf}
    return {Vertex: base, TwoEndedLink: {"v1side": "", "v2side": ">"}}


def net_view(net):
    return ([(i, net.get_node(i).get("label")) for i in net.get_nodes()],
            [(e.get("from"), e.get("to"), e.get("arrows"), e.get("title")) for e in net.get_edges()])


def entry_points(g):
    """
    Yields (name, callbacks: {argname: base fn}, call(cbs) -> comparable answer).
    `cbs` maps argname -> callable (Armed) or None.
    """
    uni = g.uni
    v0 = uni.vertices[0]
    v1 = uni.vertices[-1]
    names = g.names
    yield "neighbors", {"filterfunc": f_via}, lambda c: names(helpers.neighbors(v0, oracles.ANY, oracles.NEIGHBOR, c["filterfunc"]))
    yield "neighbors_fwd", {"filterfunc": f_via}, lambda c: names(helpers.neighbors(v1, oracles.FORWARD, oracles.NEIGHBOR, c["filterfunc"]))
    unh = zoo.UnhashableFilter(3)
    yield "neighbors_unhashable_filter", {}, lambda c: names(helpers.neighbors(v0, oracles.ANY, oracles.NEIGHBOR, unh))
    yield "bft_unhashable_filter", {}, lambda c: names(breadthfirst.bft(uni, v0, ff_via=unh, direction_sensitive=oracles.ANY,
                                                                         unknown_handling=oracles.NEIGHBOR))
    # the query asked of EVERY vertex of the graph (members or not; ends of links, vertices a link merely lists as a
    # further entry, isolated ones)
    yield "neighbors:of_every_vertex", {}, lambda c: [
        oracles.outcome(lambda v=v, d=d: names(helpers.neighbors(v, d, oracles.NEIGHBOR)))[0]
        for v in g.verts for d in (oracles.ANY, oracles.FORWARD, oracles.BACKWARD)]
    # many DISTINCT lookups on the same vertices (per-call lambdas as filters, every direction / unknown-handling
    # setting): however many answers an implementation chooses to remember, the graph stays as it was
    yield "neighbors:60_distinct_filters", {}, lambda c: [
        names(helpers.neighbors(v0, d, un, (lambda e, v, k=k: (k + getattr(v, "idx", 0)) % 3 != 0)))
        for k in range(60) for d in (oracles.ANY, oracles.FORWARD) for un in (oracles.NEIGHBOR,)][-1]
    yield "bft:40_distinct_filters", {}, lambda c: [
        names(breadthfirst.bft(uni, v0, ff_via=(lambda e, v, k=k: k % 4 != 1), direction_sensitive=oracles.ANY,
                               unknown_handling=oracles.NEIGHBOR)) for k in range(40)][-1]
    yield "find_links", {"filterfunc": f_link}, lambda c: sorted(names(helpers.find_links(v0, v1, False, oracles.NEIGHBOR, c["filterfunc"])))
    kw = dict(direction_sensitive=oracles.ANY, unknown_handling=oracles.NEIGHBOR)
    for nm, fn, gen in (("bft", breadthfirst.bft, False), ("ibft", breadthfirst.ibft, True),
                        ("dft_recursive", depthfirst.dft_recursive, False), ("idft_recursive", depthfirst.idft_recursive, True),
                        ("dft_iterative", depthfirst.dft_iterative, False), ("idft_iterative", depthfirst.idft_iterative, True)):
        yield nm, {"ff_via": f_via, "ff_result": f_res}, (
            lambda c, fn=fn: names(list(fn(uni, v0, ff_via=c["ff_via"], ff_result=c["ff_result"], **kw))))
    # the life cycle of a generator traversal: created and dropped without a single next(); started and closed;
    # abandoned half way.  However the caller lets go of it, the graph is as before.
    for nm, fn in (("ibft", breadthfirst.ibft), ("idft_recursive", depthfirst.idft_recursive), ("idft_iterative", depthfirst.idft_iterative)):
        yield nm + ":created_never_started", {}, lambda c, fn=fn: _lifecycle(fn(uni, v0, **kw), 0, False)
        yield nm + ":started_then_closed", {}, lambda c, fn=fn: _lifecycle(fn(uni, v0, **kw), 1, True)
        yield nm + ":abandoned_half_way", {}, lambda c, fn=fn: _lifecycle(fn(uni, v0, **kw), 2, False)
    for nm, fn in (("bfs", breadthfirst.bfs), ("dfs_recursive", depthfirst.dfs_recursive), ("dfs_iterative", depthfirst.dfs_iterative)):
        yield nm, {}, lambda c, fn=fn: g.name(_search(fn, uni, v0))
    yield "basic_render", {"rfunc": f_render, "sort": f_sort}, lambda c: _render(uni, c)
    yield "render_to_plantuml_src", {"user_render_func": f_urf}, lambda c: plantuml.render_to_plantuml_src(uni, puml_table(c["user_render_func"] or f_urf))
    # option tables off the beaten path: a title that names an attribute show_attrs hides (whether that renders or is
    # refused, the graph stays as it was), no attributes shown at all, properties / class-level names shown
    for label, vopt in (("title_names_hidden_attr", {"show_attrs": ["no_such_name"], "title_format": "N{idx}"}),
                        ("title_names_hidden_attr_next_to_shown_property", {"show_attrs": ["uid", "links"], "title_format": "{uid}-{idx}"}),
                        ("shows_properties_and_class_level_names", {"show_attrs": ["uid", "universes", "kind", "idx"], "title_format": "N{idx}"}),
                        ("shows_everything", {"show_attrs": [".+"], "title_format": "$id"})):
        tbl = {Vertex: dict({"type": "object"}, **vopt), TwoEndedLink: {"v1side": "", "v2side": ">"}}
        yield "render_to_plantuml_src:" + label, {}, lambda c, tbl=tbl: _puml(uni, tbl)
    yield "make_pyvis_net", {"rvfunc": f_render, "refunc": f_redge}, lambda c: net_view(egpyvis.make_pyvis_net(uni, rvfunc=c["rvfunc"], refunc=c["refunc"]))
    yield "pyvis_render_customizable", {"rvfunc": f_render, "refunc": f_redge}, lambda c: net_view(egpyvis.pyvis_render_customizable(uni, rvfunc=c["rvfunc"], refunc=c["refunc"]))
    yield "nrpickler.dumps", {}, lambda c: len(nrpickler.dumps(uni)) > 0


def _lifecycle(gen, steps, close):
    n = 0
    for _ in range(steps):
        try:
            next(gen)
            n += 1
        except StopIteration:
            break
    if close:
        gen.close()
    del gen  # reference counting finalises it here (no cycle holds it)
    return n


def _build(spec):
    """
    The graph of a spec, with the user's own attributes under names of every legal shape on some of its objects:
    leading double underscore (written outside a class body nothing mangles them), trailing underscore, a dunder-like
    name, a name with a dot.  They are data like any other.
    """
    g = graphs.build(spec)
    objs = [o for o in list(g.verts) + list(g.edges) + [g.uni] if o is not None]
    for n, o in enumerate(objs):
        if n % 2 == 0:
            for name, val in (("__weight", 42), ("__tmp_index", n), ("class_", "x"), ("__note__", "n"), ("a.b", 1)):
                oracles.outcome(setattr, o, name, val)
    return g


def _puml(uni, table):
    try:
        return len(plantuml.render_to_plantuml_src(uni, table)) > 0
    except (KeyError, ValueError, IndexError, AttributeError, TypeError) as exc:
        return "refused:" + type(exc).__name__


def _search(fn, uni, v0):
    try:
        return fn(uni, v0, "idx", 3)
    except NotImplementedError:
        return None


def _render(uni, c):
    try:
        return plaintext.basic_render(uni, rfunc=c["rfunc"], sort=c["sort"])
    except NotImplementedError:
        return "NotImplemented"


# deep snapshot -------------------------------------------------------------------


def deep_snapshot(g):
    objs = list(g.verts) + list(g.edges) + ([g.uni] if g.uni is not None else [])
    if g.uni is not None and g.uni.laws is not None:
        objs.append(g.uni.laws)
    nm = g.name
    snap = []
    for o in objs:
        # a lazily created memo TABLE is not graph state; a counter, flag or marker named "...cache..." is
        names = sorted(k for k, val_ in vars(o).items()
                       if not ("cache" in k.lower() and isinstance(val_, (dict, list, set))))
        pub = {k: _val(g, v) for k, v in vars(o).items() if not k.startswith("_")}
        rec = [type(o).__name__, names, sorted(pub.items())]
        rec.append([nm(u) for u in o.universes])
        if isinstance(o, Vertex):
            rec.append([nm(l) for l in o.links])
        if isinstance(o, Universe):
            rec.append([nm(v) for v in o.vertices])
            rec.append(nm(o.laws) if o.laws is not None else None)
        if isinstance(o, Link):
            rec.append([nm(v) for v in o.vertices])
        if isinstance(o, UniverseLaws):
            rec.append(nm(o.applies_to))
        snap.append(rec)
    # observable behaviour: what neighbors() answers for every vertex (under the caching flag in force) is
    # part of "the graph as seen by the user"; a read-only call must not reorder or change it
    beh = []
    for v in g.verts:
        for d, u in ((oracles.FORWARD, oracles.ERROR), (oracles.ANY, oracles.NEIGHBOR)):
            r = oracles.outcome(helpers.neighbors, v, d, u, None)
            beh.append(g.names(r[1]) if r[0] == "ok" else r[1].__name__)
    snap.append(["neighbors-battery", [], beh])
    return snap


def _val(g, v):
    if isinstance(v, BaseObject):
        return g.name(v)
    return repr(v)


def snap_diff(a, b):
    for x, y in zip(a, b):
        if x != y:
            if x[0] == "neighbors-battery":
                k = next(i for i, (p, q) in enumerate(zip(x[2], y[2])) if p != q)
                return f"neighbors() of v{k // 2} now answers {y[2][k]} instead of {x[2][k]}"
            if x[1] != y[1]:
                return f"{x[0]} attribute names {sorted(set(y[1]) - set(x[1]))} appeared / {sorted(set(x[1]) - set(y[1]))} vanished"
            return f"{x[0]}: {x} -> {y}"
    return "?"


class WriteSpy:
    """Evidence only: records attribute writes/deletes a 'read-only' call performs on graph objects."""

    def __init__(self):
        self.events = 0
        self.names = set()

    def __enter__(self):
        spy = self

        def s(obj, name, value):
            spy.events += 1
            spy.names.add(name)
            object.__setattr__(obj, name, value)

        def d(obj, name):
            spy.events += 1
            spy.names.add("del " + name)
            object.__delattr__(obj, name)

        BaseObject.__setattr__ = s
        BaseObject.__delattr__ = d
        return self

    def __exit__(self, *exc):
        del BaseObject.__setattr__
        del BaseObject.__delattr__
        return False


def floors(ctx):
    q = ctx.tier == "quick"
    f = {"evaluations": 5000 if q else 50000, "faults_injected": 3000 if q else 30000, "faults_propagated": 1000 if q else 10000,
         "fault_free_runs": 300, "faults_of_library_catchable_types": 3000,
         "faults_propagated_with_caching_on": 2000, "faults_outside_the_Exception_hierarchy_propagated": 1000,
         "graphs_with_an_edge_that_lost_an_end": 10}
    for ep, cbs in (("neighbors", ["filterfunc"]), ("find_links", ["filterfunc"]), ("bft", ["ff_via", "ff_result"]),
                    ("ibft", ["ff_via", "ff_result"]), ("dft_recursive", ["ff_via", "ff_result"]),
                    ("idft_recursive", ["ff_via", "ff_result"]), ("dft_iterative", ["ff_via", "ff_result"]),
                    ("idft_iterative", ["ff_via", "ff_result"]), ("basic_render", ["rfunc", "sort"]),
                    ("render_to_plantuml_src", ["user_render_func"]), ("make_pyvis_net", ["rvfunc", "refunc"]),
                    ("pyvis_render_customizable", ["rvfunc", "refunc"])):
        for cb in cbs:
            f[f"all_k_enumerated:{ep}:{cb}"] = 3
            f[f"propagated:{ep}:{cb}"] = 1
    return f


def cool(g):
    """
    Empty every vertex's neighbor cache through public calls that leave the graph exactly as it was (attach and
    detach a scratch self-loop).  Without this, with caching on, the callbacks of a cached entry point would
    never be invoked again after the fault-free run and no fault could fire.
    """
    for v in g.verts + ([g.uni] if g.uni is not None else []):
        e = DirectedEdge(v, v)
        v.remove_from_link(e)


def run_graph(ctx, spec, cache, only=None):
    g0 = _build(spec)
    if not g0.uni.vertices:
        return
    shape = trav._shape(spec)
    for n_ep in range(len(list(entry_points(g0)))):
        # a fresh graph per entry point: a violation must not pollute the next entry point's run
        g = _build(spec)
        ep, cbdefs, call = list(entry_points(g))[n_ep]
        if only and ep != only:
            continue
        Vertex.NEIGHBOR_CACHING = bool(cache)
        try:
            case = {"spec": spec, "cache": bool(cache), "entry": ep}
            cbs = {k: Armed(fn) for k, fn in cbdefs.items()}
            s0 = deep_snapshot(g)
            with WriteSpy() as spy:
                base = oracles.outcome(call, cbs)
            ctx.count("transient_attribute_writes_observed", spy.events)
            s1 = deep_snapshot(g)
            ctx.evaluated()
            ctx.count("fault_free_runs")
            if s1 != s0:
                ctx.violation(f"{ep}:fault_free_call_changed_graph", f"{ep} (caching={cache}): {snap_diff(s0, s1)}; spec={spec}", case)
                continue
            if base[0] != "ok":
                # the entry point itself is outside its domain on this graph (e.g. unknown link under ERROR)
                continue
            counts = {k: a.calls for k, a in cbs.items()}
            for cbname, armed in cbs.items():
                K = counts[cbname]
                # every k with the harness' own exception type; first / middle / last k with exception types that a
                # library is tempted to catch or to read as control flow (StopIteration, AttributeError, ...)
                plan = [(k, InjectedFault) for k in range(1, K + 1)]
                for kind in FAULT_KINDS[1:]:
                    plan += [(k, kind) for k in sorted({1, (K + 1) // 2, K}) if k >= 1]
                for k, kind in plan:
                    for a in cbs.values():
                        a.disarm()
                    if cache:
                        cool(g)
                    armed.arm(k, kind)
                    out = outcome_b(call, cbs)
                    s2 = deep_snapshot(g)
                    ctx.evaluated()
                    ctx.count("faults_injected")
                    propagated = out[0] == "exc" and out[1] is InjectedFault
                    if kind in BASE_KINDS:
                        ctx.count("faults_outside_the_Exception_hierarchy")
                        if out[0] == "exc" and out[1] is kind:
                            ctx.count("faults_outside_the_Exception_hierarchy_propagated")
                    elif kind is not InjectedFault:
                        ctx.count("faults_of_library_catchable_types")
                    if propagated:
                        ctx.count("faults_propagated")
                        ctx.count(f"propagated:{ep}:{cbname}")
                        if cache:
                            ctx.count("faults_propagated_with_caching_on")
                        ctx.nontrivial((shape, ep, cbname, k, cache))
                    if s2 != s0:
                        ctx.violation(f"{ep}:{cbname}:fault_left_graph_changed",
                                      f"{ep} (caching={cache}) with {cbname} raising {kind.__name__} at invocation {k}/{K}: "
                                      f"{snap_diff(s0, s2)}; spec={spec}", dict(case, cb=cbname, k=k))
                        break
                    for a in cbs.values():
                        a.disarm()
                    again = oracles.outcome(call, cbs)
                    if again != base:
                        ctx.violation(f"{ep}:{cbname}:answer_after_fault_differs" + (":caching_on" if cache else ""),
                                      f"{ep} (caching={cache}): after {cbname} raised {kind.__name__} at invocation {k}/{K}, repeating the call "
                                      f"with the well-behaved callback gives {again}, fault-free answer is {base}; spec={spec}",
                                      dict(case, cb=cbname, k=k))
                        break
                    s3 = deep_snapshot(g)
                    if s3 != s0:
                        ctx.violation(f"{ep}:{cbname}:repeat_call_changed_graph", f"{ep}: {snap_diff(s0, s3)}", dict(case, cb=cbname, k=k))
                        break
                else:
                    if K:
                        ctx.count(f"all_k_enumerated:{ep}:{cbname}")
        finally:
            Vertex.NEIGHBOR_CACHING = False


def run(ctx):
    rng = random.Random(ctx.seed * 86028157 + ctx.shard * 23 + 13)
    quick = ctx.tier == "quick"
    specs = []
    frng = random.Random(13)
    for spec in graphs.family_specs(frng, sizes=(4, 6), ecls=graphs.ECLS_X, vcls=graphs.VCLS_XB):
        spec = dict(spec)
        if not spec.get("uni"):
            spec["uni"] = list(range(len(spec["verts"])))
        specs.append(spec)
    n_rand = ctx.n(170 if quick else 300)
    n = 0
    for i in range(len(specs) + n_rand):
        if i < len(specs):
            if i % ctx.nshards != ctx.shard:
                continue
            spec = specs[i]
        else:
            spec = graphs.rand_spec(rng, nmax=8 if quick else 20, mmax=12 if quick else 40,
                                    ecls=graphs.ECLS_X if i % 2 else graphs.ECLS_DU, vcls=graphs.VCLS_XB,
                                    uni_mode="all" if rng.random() < 0.6 else "rand")
            if not spec.get("uni"):
                spec["uni"] = [j for j in range(len(spec["verts"])) if rng.random() < 0.8] or [0]
            if spec["edges"] and i % 4 == 2:
                # an edge that lists a further vertex besides its two ends (Vertex(links=[e]) / add_to_link produce
                # that); reads may treat that vertex as they like - they leave it attached as it is
                spec["extra"] = [[rng.randrange(len(spec["edges"])), rng.randrange(len(spec["verts"]))]]
                ctx.count("graphs_with_a_link_listing_a_further_vertex")
            if spec["edges"] and i % 8 == 5:
                # a graph history no constructor produces: an edge that lost one end.  Reads that reach it may
                # refuse (IndexError) - they must still leave it exactly as it is
                spec["half"] = [[rng.randrange(len(spec["edges"])), rng.randrange(2)]]
                spec.pop("extra", None)
                ctx.count("graphs_with_an_edge_that_lost_an_end")
        run_graph(ctx, spec, cache=bool(i % 2))
        n += 1
        if ctx.shard == 0 and n in (2, 25):
            ctx.sample({"spec": spec, "caching": bool(i % 2), "enumerated": "every entry point x callback x k in 1..K"})
    ctx.assumptions += [
        "attributes whose name contains 'cache' AND whose value is a dict/list/set are ignored in the vars() comparison (a lazily created memo table is not graph state; a counter or marker is)",
        "callbacks are pure apart from the injected fault; the same callable object is reused after the fault",
        "entry points that raise on their own on a graph (outside their domain) are not fault-injected there",
    ]


def replay(ctx, case):
    run_graph(ctx, case["spec"], case["cache"], only=case.get("entry"))
    ctx.nontrivial("replay-a")
    ctx.nontrivial("replay-b")
