"""
C08 -- each search returns the first match of its corresponding traversal, or None.
"""

from __future__ import annotations

import random

from edgegraph.structure import Vertex
from edgegraph.traversal import breadthfirst, depthfirst, helpers

from egverif import graphs, oracles, trav, zoo
from egverif.common import ddmin

RULE = (
    "cases = (graph spec with a 'key' attribute on some vertices, universe or None, start, sought value); graphs are "
    "the C06 families and random directed/undirected multigraphs over the vertex-class zoo (incl. vertices whose "
    "truth value is False and universes as members); stored values contain deliberate duplicates, sought values are "
    "equal-but-not-identical objects (1000 vs 1000.0, run-time built strings/tuples), absent values, and attributes "
    "missing on some vertices, and attributes a vertex only has through its class (class-level default, property, "
    "uid, slot).  Oracle: first vertex of the corresponding real traversal (default settings) having "
    "the attribute == value.  Non-trivial = some listed vertex matches; distinct = distinct (graph shape, key "
    "placement, start, sought value)."
)

SEARCH = {
    "bfs": (breadthfirst.bfs, breadthfirst.bft),
    "dfs_recursive": (depthfirst.dfs_recursive, depthfirst.dft_recursive),
    "dfs_iterative": (depthfirst.dfs_iterative, depthfirst.dft_iterative),
}

# stored values (by index) and how the *sought* object is built at run time
NAN = float("nan")
# (the last four are callables: a vertex tagged with a handler function, a payload class, a builtin - the sought value
# is compared with ==, never called)
# (then: UNHASHABLE stored values that equal a hashable sought value of another type - bytearray == bytes,
# set == frozenset - and a list, which equals only lists)
class LooseTuple(tuple):
    """
    A hand-written value class on top of a builtin: equality ignores the provenance field, and - as in most such
    classes - only __eq__ / __hash__ are defined.  The inherited tuple.__ne__ still compares every field, so for two
    records that differ in provenance only, `a == b` and `a != b` are both true.  "Equals" in the property is `==`.
    """

    def __eq__(self, other):
        return self[0] == other[0] if isinstance(other, LooseTuple) else NotImplemented

    def __hash__(self):
        return hash(self[0])


class LooseDict(dict):
    """The dict flavour of the same: keys starting with an underscore are bookkeeping and do not count."""

    def __eq__(self, other):
        if not isinstance(other, dict):
            return NotImplemented
        return ({k: v for k, v in self.items() if not str(k).startswith("_")}
                == {k: v for k, v in other.items() if not str(k).startswith("_")})

    __hash__ = None


STORED = [0, 1, 2, 1000, "ab", ("x", 1), None, True, 2.5, "", -1, 10 ** 20, NAN, zoo.r_accept, zoo.r_reject, len, zoo.VSub,
          bytearray(b"xy"), {1, 2}, [1, [2]], b"xy", frozenset({1, 2}),
          LooseTuple(("rec", "read from a.csv")), LooseDict({"k": 1, "_seen": 3})]


def sought(i):
    """Equal to STORED[i] but (where the type allows) not the same object."""
    v = STORED[i]
    if v is NAN:
        return v  # the identical object: identity does not imply equality, nan != nan, so nothing matches
    if isinstance(v, bool) or v is None or callable(v):
        return v
    if isinstance(v, LooseTuple):
        return LooseTuple((v[0], "typed in by hand"))   # equal; and unequal too, if one asks with !=
    if isinstance(v, LooseDict):
        return {"k": 1, "_seen": 0, "_by": "someone else"}  # a plain dict the stored record equals
    if isinstance(v, bytearray):
        return bytes(v)            # equal, hashable, another type
    if isinstance(v, set):
        return frozenset(v)
    if isinstance(v, list):
        return [x if not isinstance(x, list) else list(x) for x in v]
    if isinstance(v, bytes):
        return bytearray(v)        # ... and the other way round
    if isinstance(v, frozenset):
        return set(v)
    if isinstance(v, int):
        return float(v) if abs(v) < 2 ** 50 else int(str(v))
    if isinstance(v, float):
        return float(str(v))
    if isinstance(v, str):
        return "".join(list(v))
    if isinstance(v, tuple):
        return tuple(list(v))
    return v


class EqAll:
    """A wildcard: equal to every object (like unittest.mock.ANY) - 'first vertex that has the attribute at all'."""

    def __eq__(self, other):
        return True

    def __hash__(self):
        return 0

    def __repr__(self):
        return "<EqAll>"


ABSENT = ["nope", 777, (), 3.25, EqAll()]

# attributes a vertex has without their being in its __dict__: a class-level default (VSub.kind), properties
# (VFancy.parity, and uid on every vertex), a slot (VSlots.slot_a)
CLASS_ATTRS = {"kind": ["sub", "nope"], "parity": [0, 1, 1.0], "slot_a": [["sa", 1], ["sa", 0], ["sa", 3]]}


def floors(ctx):
    q = ctx.tier == "quick"
    return {"evaluations": 3000 if q else 30000, "match_deep": 100 if q else 1000,
            "multi_match": 100 if q else 1000, "match_is_falsy": 100 if q else 1000,
            "no_match_none": 100 if q else 1000, "match_is_start": 20, "sought_not_identical": 100,
            "some_vertex_lacks_attr": 100, "match_only_outside_universe": 10, "cases_with_caching_on": 100, "identical_but_unequal_value_sought": 20,
            "match_through_class_level_attribute_or_property": 100,
            "cases_with_attribute_name_that_is_not_an_identifier": 100, "searches_over_unhashable_vertices": 50,
            "cases_with_start_outside_the_universe": 50, "sought_value_is_callable": 50,
            "match_equal_across_types_one_side_unhashable": 50}


def _matches(v, attr, val):
    return hasattr(v, attr) and getattr(v, attr) == val


def run_case(ctx, spec, si, attr, vi, absent=None, _shrinking=False, cache=False):
    Vertex.NEIGHBOR_CACHING = bool(cache)
    try:
        return _run_case(ctx, spec, si, attr, vi, absent, _shrinking, cache)
    finally:
        Vertex.NEIGHBOR_CACHING = False


def _stored_ref(i):
    """JSON-able stand-in for a stored value that JSON cannot carry (a callable)."""
    return ["@stored", i] if callable(STORED[i]) or isinstance(STORED[i], (bytearray, bytes, set, frozenset, list, LooseTuple, LooseDict)) else STORED[i]


def _resolved(spec):
    attrs = spec.get("attrs") or {}
    if not any(isinstance(v, list) and len(v) == 2 and v[0] == "@stored" for a in attrs.values() for v in a.values()):
        return spec
    return dict(spec, attrs={i: {k: (STORED[v[1]] if isinstance(v, list) and len(v) == 2 and v[0] == "@stored" else v)
                                 for k, v in a.items()} for i, a in attrs.items()})


def _run_case(ctx, spec, si, attr, vi, absent, _shrinking, cache):
    g = graphs.build(_resolved(spec))
    if cache:
        ctx.count("cases_with_caching_on")
    start, uni = g.verts[si], g.uni
    val = sought(vi) if absent is None else ABSENT[absent]
    if attr == "uid":
        val = int(str(g.verts[vi % len(g.verts)].uid))  # some vertex's uid, as an equal but distinct int object
    elif attr in CLASS_ATTRS:
        val = CLASS_ATTRS[attr][vi % len(CLASS_ATTRS[attr])]
    found = []
    case = {"spec": spec, "start": si, "attr": attr, "vi": vi, "absent": absent, "cache": bool(cache)}
    # the searches run first, on a graph nothing has been read from yet; the traversals that define the
    # expected answer run afterwards
    first = {name: oracles.outcome(sf, uni, start, attr, val) for name, (sf, tf) in SEARCH.items()}
    for name, (sf, tf) in SEARCH.items():
        listed = oracles.outcome(tf, uni, start)
        if listed[0] != "ok":
            # the corresponding traversal itself refuses (a start vertex outside the universe; set-based
            # traversals and unhashable vertices): it lists nothing, so there is nothing to be the first match
            # of - the search may refuse as well or answer None, but it cannot hand out a vertex
            ctx.count("searches_whose_traversal_refuses")
            start_outside = uni is not None and not any(start is m for m in uni.vertices)
            if not start_outside:
                continue  # (e.g. unhashable vertices under a set-based traversal: the pair is outside its domain)
            ctx.evaluated()
            if first[name][0] == "ok" and first[name][1] is not None:
                outside = uni is not None and not any(first[name][1] is m for m in uni.vertices)
                ctx.violation(f"{name}:returned_vertex_although_traversal_lists_nothing" + (":outside_universe" if outside else ""),
                              f"{tf.__name__}(uni, v{si}) raises {listed[1].__name__} and lists nothing, yet {name}(uni, v{si}, "
                              f"{attr!r}, {val!r}) returned {g.name(first[name][1])}; classes={spec['verts']} attrs={spec.get('attrs')} "
                              f"edges={spec['edges']} uni={spec.get('uni')}", case)
                found.append(f"{name}:returned_vertex_although_traversal_lists_nothing")
            continue
        order = listed[1]
        if "UnhashableVertex" in spec["verts"]:
            ctx.count("searches_over_unhashable_vertices")
        exp = None
        pos = None
        for k, v in enumerate(order):
            if _matches(v, attr, val):
                exp, pos = v, k
                break
        got = first[name]
        ctx.evaluated()
        nmatch = sum(1 for v in order if _matches(v, attr, val))
        if exp is not None:
            ctx.nontrivial(("m", trav._shape(spec), str(spec.get("attrs")), si, repr(val), name))
            if exp is start:
                ctx.count("match_is_start")
            else:
                direct = any(x is exp for x in helpers.neighbors(start))
                if not direct:
                    ctx.count("match_deep")
            if nmatch > 1:
                ctx.count("multi_match")
            if not bool(exp):
                ctx.count("match_is_falsy")
            if getattr(exp, attr) is not val:
                ctx.count("sought_not_identical")
            if callable(val):
                ctx.count("sought_value_is_callable")
            if type(getattr(exp, attr)) is not type(val) and isinstance(val, (bytes, bytearray, set, frozenset)):
                ctx.count("match_equal_across_types_one_side_unhashable")
            if attr not in vars(exp):
                ctx.count("match_through_class_level_attribute_or_property")
        else:
            ctx.count("no_match_none")
            if val is NAN and any(getattr(v, attr, None) is NAN for v in order):
                ctx.count("identical_but_unequal_value_sought")
            if uni is not None and any(_matches(v, attr, val) for v in g.verts if not any(v is m for m in uni.vertices)):
                ctx.count("match_only_outside_universe")
        if any(not hasattr(v, attr) for v in order):
            ctx.count("some_vertex_lacks_attr")
        ok = got[0] == "ok" and got[1] is exp
        if not ok:
            if got[0] == "exc":
                clause = f"raised:{got[1].__name__}"
            elif exp is None:
                clause = "returned_nonmatch" if not _matches(got[1], attr, val) else "returned_unlisted_match"
            elif got[1] is None:
                clause = "none_for_match" + (":falsy_vertex" if not bool(exp) else "") + (
                    ":equal_not_identical" if getattr(exp, attr) is not val else "")
            elif _matches(got[1], attr, val):
                clause = "later_match_returned"
            else:
                clause = "returned_nonmatch"
            mech = f"{name}:{clause}"
            found.append(mech)
            ctx.violation(
                mech,
                f"{name}(uni, v{si}, {attr!r}, {val!r}) returned {g.name(got[1]) if got[0]=='ok' else got[1].__name__}; "
                f"{tf.__name__} lists {g.names(order)}, first match is {g.name(exp)} (position {pos}); "
                f"classes={spec['verts']} attrs={spec.get('attrs')} edges={spec['edges']} uni={spec.get('uni')}",
                case,
            )
    if found and not _shrinking and len(spec["edges"]) > 1:
        first = found[0]

        def fails(edges):
            q = trav.Quiet()
            run_case(q, dict(spec, edges=edges), si, attr, vi, absent, _shrinking=True, cache=cache)
            return first in q.v

        small = ddmin(list(spec["edges"]), fails)
        if len(small) < len(spec["edges"]) and fails(small):
            run_case(ctx, dict(spec, edges=small), si, attr, vi, absent, _shrinking=True, cache=cache)
    return found


def decorate(rng, spec):
    """Give a 'key' attribute (index into STORED) to most vertices, with duplicates."""
    n = len(spec["verts"])
    pool = [rng.randrange(len(STORED)) for _ in range(max(1, n // 2))]
    attrs = {}
    for i in range(n):
        if rng.random() < 0.8:
            attrs[str(i)] = {"key": STORED[rng.choice(pool)], "_vi": None}
    return attrs, pool


def run(ctx):
    rng = random.Random(ctx.seed * 6007 + ctx.shard * 15485863 + 8)
    quick = ctx.tier == "quick"
    frng = random.Random(99)
    base = []
    for spec in graphs.family_specs(frng, sizes=(4, 7, 12) if quick else (4, 7, 12, 40, 150),
                                    ecls=graphs.ECLS_DU, vcls=graphs.VCLS_MIX):
        base.append(spec)
    base += graphs.hub_specs(frng, fanouts=(129, 260))
    n_random = ctx.n(2500 if quick else 12000)
    k = 0
    for n in range(len(base) * 6 + n_random):
        if n < len(base) * 6:
            if n % ctx.nshards != ctx.shard:
                continue
            spec = dict(base[n // 6])
            r = random.Random(n)
        else:
            r = rng
            spec = graphs.rand_spec(rng, nmax=8 if quick else 14, mmax=14 if quick else 30,
                                    ecls=graphs.ECLS_DU, vcls=graphs.VCLS_MIX if rng.random() < 0.8 else ["FalsyVertex", "EmptyVertex"])
        starts = trav.valid_starts(spec)
        if not starts:
            continue
        nverts = len(spec["verts"])
        pool = [r.randrange(len(STORED)) for _ in range(max(1, nverts // 3))]
        attrs = {}
        for i in range(nverts):
            if r.random() < 0.8:
                attrs[str(i)] = {"key": _stored_ref(r.choice(pool))}
        spec["attrs"] = attrs
        for _ in range(3):
            si = r.choice(starts)
            if r.random() < 0.8:
                run_case(ctx, spec, si, "key", r.choice(pool), cache=r.random() < 0.4)
            else:
                run_case(ctx, spec, si, "key", 0, absent=r.randrange(len(ABSENT)), cache=r.random() < 0.4)
        # other attribute names: the construction index (unique) and a real property
        run_case(ctx, dict(spec, attrs={}), r.choice(starts), "idx", 1)
        run_case(ctx, spec, r.choice(starts), r.choice(["uid", "uid", "kind", "parity", "slot_a"]), r.randrange(12),
                 cache=r.random() < 0.3)
        # a start vertex that is NOT a member of the universe (and carries the sought value itself)
        if spec.get("uni") is not None:
            outsiders = [i for i in range(nverts) if i not in spec["uni"]]
            if outsiders and spec["uni"]:
                so = r.choice(outsiders)
                vi_ = r.choice(pool)
                run_case(ctx, dict(spec, attrs={**attrs, str(so): {"key": _stored_ref(vi_)}}), so, "key", vi_, cache=r.random() < 0.3)
                ctx.count("cases_with_start_outside_the_universe")
        # vertices that cannot be hashed: whatever traversal lists them, its search finds the first match
        if k % 5 == 0:
            uspec = dict(spec, verts=[("UnhashableVertex" if r.random() < 0.7 else c) for c in spec["verts"]])
            run_case(ctx, uspec, r.choice(starts), "key", r.choice(pool), cache=r.random() < 0.3)
        # attribute names that are not identifiers: a dotted name is ONE attribute (set through attributes= /
        # v["unit.cost"] = ...), not a path; "key.real" also exists as a path on vertices whose key is a number
        odd = r.choice(["key.real", "unit.cost", "key.", " key", "__class__.__name__"])
        attrs2 = {i: dict(a) for i, a in attrs.items()}
        for i in range(nverts):
            if r.random() < 0.5:
                attrs2.setdefault(str(i), {})[odd] = _stored_ref(r.choice(pool))
        if any(odd in a for a in attrs2.values()):
            ctx.count("cases_with_attribute_name_that_is_not_an_identifier")
            run_case(ctx, dict(spec, attrs=attrs2), r.choice(starts), odd, r.choice(pool), cache=r.random() < 0.3)
        k += 1
        if k in (3, 400) and ctx.shard == 0:
            ctx.sample({"spec": spec, "start": si, "attr": "key", "sought": repr(sought(pool[0]))})
    ctx.assumptions += [
        "graphs hold only directed/undirected edges (searches use LNK_UNKNOWN_ERROR); a start vertex outside the universe is refused by the traversals, so the search may refuse or answer None",
        "attribute values compare with a total, side-effect-free ==",
        "the corresponding traversal order itself is pinned by C07",
    ]


def replay(ctx, case):
    spec = case["spec"]
    # JSON turned tuples into lists: restore stored values by equality with STORED
    for a in (spec.get("attrs") or {}).values():
        if isinstance(a.get("key"), list):
            a["key"] = tuple(a["key"])
        if isinstance(a.get("key"), float) and a["key"] != a["key"]:
            a["key"] = NAN  # JSON gave us *a* NaN; the case is about *the* NaN that is also sought
    run_case(ctx, spec, case["start"], case["attr"], case["vi"], case.get("absent"), cache=case.get("cache", False))
    ctx.nontrivial("replay-a")
    ctx.nontrivial("replay-b")
