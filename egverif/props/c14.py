"""
C14 -- PlantUML source shows each member vertex and each internal link once, oriented.
"""

from __future__ import annotations

import collections
import copy
import random
import re

from edgegraph.output import plantuml
from edgegraph.structure import DirectedEdge, TwoEndedLink, UnDirectedEdge, Vertex

from egverif import graphs, oracles, trav, zoo

RULE = (
    "cases = (graph spec with a universe, option table); 5 option tables (the default with $id titles, per-subclass "
    "overrides of type/title_format (incl. format specifications, indexing and conversions) / arrow ends, a table configuring only the grandparent classes, a table with a "
    "user_render_func, a table that also configures other two-ended links) x shape families and random multigraphs "
    "with self-loops, parallel/antiparallel/mixed edges, isolated members, links leaving the universe, zoo subclasses. "
    "The text is parsed back: declaration headers and relation lines are compared as multisets with what the graph "
    "and table imply.  Non-trivial = at least one internal link; distinct = distinct (graph shape, universe, table)."
)

HDR = re.compile(r"^(\S+) (\S+) <<(\w+)>> \{$")
REL = re.compile(r"^(\S+) (\S*)--(\S*) (\S+)$")


def _urf(vertex, options):
    return f"entity U{vertex.idx} <<{type(vertex).__name__}>> {{\n}}\n"


def tables():
    t0 = copy.deepcopy(plantuml.PLANTUML_RENDER_OPTIONS)
    base_v = {"type": "object", "show_attrs": ["idx"], "title_format": "{idx}"}
    t1 = {
        "skinparams": {"dpi": "100"},
        Vertex: dict(base_v, stereotype_skinparams={"BackgroundColor": "White"}),
        zoo.VSub: {"type": "class", "show_attrs": ["idx", "uid"], "title_format": "S_{idx}"},
        zoo.FalsyVertex: {"type": "entity", "show_attrs": ["idx"], "title_format": "F{idx}"},
        DirectedEdge: {"v1side": "", "v2side": ">"},
        zoo.DSub: {"v1side": "o", "v2side": ">"},
        UnDirectedEdge: {"v1side": "", "v2side": ""},
        zoo.USub: {"v1side": "*", "v2side": "*"},
    }
    t2 = {
        Vertex: dict(base_v, title_format="V_{idx}"),
        TwoEndedLink: {"v1side": "x", "v2side": ""},
    }
    t3 = {
        Vertex: dict(base_v),
        zoo.VSubSub: {"type": "object", "show_attrs": ["idx"], "title_format": "U{idx}", "user_render_func": _urf},
        DirectedEdge: {"v1side": "<|", "v2side": ""},
        UnDirectedEdge: {"v1side": "", "v2side": ""},
    }
    t4 = {
        Vertex: dict(base_v, show_attrs=[".+"]),
        DirectedEdge: {"v1side": "", "v2side": ">"},
        UnDirectedEdge: {"v1side": "", "v2side": ""},
        zoo.OtherLink: {"v1side": "#", "v2side": "#"},
        TwoEndedLink: {"v1side": "+", "v2side": "+"},
    }
    t5 = {
        # multiple inheritance: VBoth(VPlain, VFancy) must resolve to VFancy (nearest configured class in its MRO),
        # MixEdge(Marker, DirectedEdge) to DirectedEdge
        Vertex: dict(base_v),
        zoo.VFancy: {"type": "class", "show_attrs": ["idx"], "title_format": "fancy_{idx}"},
        DirectedEdge: {"v1side": "", "v2side": ">"},
        UnDirectedEdge: {"v1side": "", "v2side": ""},
        zoo.DSub: {"v1side": "o", "v2side": ">>"},
    }
    t6 = {
        # attribute names that collide with words the renderer uses itself: id, type, title
        Vertex: {"type": "object", "show_attrs": ["id", "idx", "type"], "title_format": "n{id}_{type}"},
        DirectedEdge: {"v1side": "", "v2side": ">"},
        UnDirectedEdge: {"v1side": "", "v2side": ""},
    }
    t7 = {
        # format specifications, indexing and conversions: the title is built from the attribute VALUES
        Vertex: {"type": "object", "show_attrs": ["idx", "pos", "w"], "title_format": "n{idx:03}h{idx:x}p{pos[0]}w{w:.1f}"},
        zoo.VSub: {"type": "class", "show_attrs": ["idx", "pos"], "title_format": "s{idx:>02}q{pos[1]!r:.2}"},
        DirectedEdge: {"v1side": "", "v2side": ">"},
        UnDirectedEdge: {"v1side": "", "v2side": ""},
    }
    t8 = {
        # titles that do not tell vertices apart, and nothing else shown: several members render to the very same
        # declaration text - each of them is still declared (once)
        Vertex: {"type": "object", "show_attrs": ["grp"], "title_format": "g{grp}"},
        zoo.VSub: {"type": "object", "show_attrs": ["grp"], "title_format": "same"},
        DirectedEdge: {"v1side": "", "v2side": ">"},
        UnDirectedEdge: {"v1side": "", "v2side": ""},
    }
    t9 = {
        # PlantUML's crow's-foot / brace arrow heads: legal end strings that contain { } | and o
        Vertex: dict(base_v),
        DirectedEdge: {"v1side": "||", "v2side": "o{"},
        zoo.DSub: {"v1side": "}o", "v2side": "||"},
        UnDirectedEdge: {"v1side": "}|", "v2side": "|{"},
        zoo.USub: {"v1side": "{", "v2side": "}"},
    }
    t10 = {
        # one catch-all entry filed under `object`, the root of every hierarchy (it serves vertices and links alike),
        # plus one nearer entry
        object: {"type": "entity", "show_attrs": ["idx"], "title_format": "any{idx}", "v1side": "x", "v2side": "+"},
        zoo.VSub: {"type": "class", "show_attrs": ["idx"], "title_format": "S{idx}"},
    }
    t11 = {
        # show_attrs handed over as patterns the user compiled himself - with flags: IGNORECASE picks `idx` up through
        # "IDX$", VERBOSE lets the pattern carry a comment
        Vertex: {"type": "object", "show_attrs": re.compile("IDX$", re.I), "title_format": "K{idx}"},
        zoo.VSub: {"type": "class", "show_attrs": re.compile(r"""i d x $   # the index, spelled out""", re.X), "title_format": "S{idx}"},
        zoo.FalsyVertex: {"type": "entity", "show_attrs": re.compile("^idx$|^uid$"), "title_format": "F{idx}"},
        DirectedEdge: {"v1side": "", "v2side": ">"},
        UnDirectedEdge: {"v1side": "", "v2side": ""},
    }
    return {"compiled": t11, "default": t0, "overrides": t1, "grandparents": t2, "userfunc": t3, "otherlinks": t4, "multi": t5, "idattr": t6,
            "fmtspec": t7, "sametitle": t8, "crowsfoot": t9, "catchall": t10}


TABLE_ALLOWS_OTHER = {"compiled": False, "default": False, "overrides": False, "grandparents": True, "userfunc": False, "otherlinks": True,
                      "multi": False, "incremental": False, "idattr": False, "fmtspec": False, "sametitle": False, "crowsfoot": False, "catchall": True}


def nearest(cls, table):
    for c in cls.__mro__:
        if c in table:
            return table[c]
    return None


def title(v, table):
    o = nearest(type(v), table)
    if "user_render_func" in o:
        return f"U{v.idx}"
    if o["title_format"] == "$id":
        return hex(id(v))
    return o["title_format"].format(idx=v.idx, uid=v.uid, id=getattr(v, "id", None), type=getattr(v, "type", None),
                                    pos=getattr(v, "pos", None), w=getattr(v, "w", None), grp=getattr(v, "grp", None))


def floors(ctx):
    q = ctx.tier == "quick"
    return {"evaluations": 1000 if q else 10000, "relation_lines_checked": 3000 if q else 30000,
            "graphs_with_selfloop": 50, "graphs_with_parallel": 50, "graphs_with_mixed_kinds": 50,
            "links_leaving_universe": 50, "empty_universe": 3, "isolated_members": 100,
            "subclass_resolved_via_ancestor": 100, "multiple_inheritance_members": 50,
            "renders_after_table_was_extended": 100, "renders_with_format_specs_in_title": 100,
            "members_of_same_named_classes_configured_differently": 50,
            "renders_with_members_declared_by_identical_text": 100}


INCREMENTAL_ADDS = {
    # entries the user adds to the SAME table object between two renders
    zoo.VSub: {"type": "class", "show_attrs": ["idx"], "title_format": "sub_{idx}"},
    zoo.VPlain: {"type": "entity", "show_attrs": ["idx"], "title_format": "plain_{idx}"},
    zoo.DSub: {"v1side": "o", "v2side": ">>"},
    zoo.USub: {"v1side": "#", "v2side": "#"},
}


def run_case(ctx, spec, tname):
    if tname == "idattr":
        spec = dict(spec, attrs={str(i): {"id": 100 + i, "type": "T"} for i in range(len(spec["verts"]))})
    if tname == "sametitle":
        spec = dict(spec, attrs={str(i): {"grp": i % 2} for i in range(len(spec["verts"]))})
    if tname == "fmtspec":
        spec = dict(spec, attrs={str(i): {"pos": [i * 2, "pq"], "w": i * 0.5} for i in range(len(spec["verts"]))})
        ctx.count("renders_with_format_specs_in_title")
    g = graphs.build(spec)
    if tname == "incremental":
        # the user renders with a small table, then configures intermediate classes in the same table object and
        # renders again; the second rendering must follow the table as the user wrote it
        base_v = {"type": "object", "show_attrs": ["idx"], "title_format": "{idx}"}
        table = {Vertex: dict(base_v), DirectedEdge: {"v1side": "", "v2side": ">"}, UnDirectedEdge: {"v1side": "", "v2side": ""}}
        ref = {Vertex: dict(base_v), DirectedEdge: {"v1side": "", "v2side": ">"}, UnDirectedEdge: {"v1side": "", "v2side": ""}}
        first = oracles.outcome(plantuml.render_to_plantuml_src, g.uni, table)
        if first[0] == "ok":
            for k, v in INCREMENTAL_ADDS.items():
                table[k] = dict(v)
                ref[k] = dict(v)
            ctx.count("renders_after_table_was_extended")
    else:
        table = tables()[tname]
        ref = tables()[tname]  # the renderer may rewrite its own copy (show_attrs is compiled in place)
    case = {"spec": spec, "table": tname}
    res = oracles.outcome(plantuml.render_to_plantuml_src, g.uni, table)
    ctx.evaluated()
    members = g.uni.vertices
    if res[0] != "ok":
        ctx.violation(f"raised:{res[1].__name__}", f"render_to_plantuml_src raised {res[1].__name__} (table {tname}) on {spec}", case)
        return
    text = res[1]
    if not members:
        ctx.count("empty_universe")
        if text is not None:
            ctx.violation("empty_universe_not_none", f"empty universe rendered as {text!r}", case)
        return
    if not isinstance(text, str):
        ctx.violation("not_a_string", f"returned {type(text).__name__}", case)
        return
    lines = text.split("\n")
    body = [l for l in lines if l.strip()]
    if not body or body[0] != "@startuml" or body[-1] != "@enduml":
        ctx.violation("markers", f"text does not start with @startuml / end with @enduml: {body[:1]} .. {body[-1:]}", case)
        return
    # ---- declarations ----------------------------------------------------
    exp_hdr = collections.Counter()
    for v in members:
        o = nearest(type(v), ref)
        typ = "entity" if "user_render_func" in o else o["type"]
        exp_hdr[(typ, title(v, ref), type(v).__name__)] += 1
        if type(v) not in ref:
            ctx.count("subclass_resolved_via_ancestor")
        if len(type(v).__bases__) > 1:
            ctx.count("multiple_inheritance_members")
        if any(type(w) is not type(v) and type(w).__name__ == type(v).__name__
               and nearest(type(w), ref) is not nearest(type(v), ref) for w in members):
            ctx.count("members_of_same_named_classes_configured_differently")
        if not v.links:
            ctx.count("isolated_members")
    if any(k > 1 for k in exp_hdr.values()):
        ctx.count("renders_with_members_declared_by_identical_text")
    got_hdr = collections.Counter()
    for l in lines:
        m = HDR.match(l)
        if m:
            got_hdr[m.groups()] += 1
    if got_hdr != exp_hdr:
        miss = list((exp_hdr - got_hdr).elements())
        extra = list((got_hdr - exp_hdr).elements())
        clause = "declaration_missing" if miss and not extra else "declaration_extra" if extra and not miss else "declaration_wrong"
        ctx.violation(clause, f"declarations differ (table {tname}): missing {miss}, unexpected {extra}; members "
                      f"{[(type(v).__name__, v.idx) for v in members]}", case)
        return
    # ---- relation lines --------------------------------------------------
    member_ids = {id(v) for v in members}
    seen = set()
    required = collections.Counter()
    optional = collections.Counter()
    internal = 0
    for v in members:
        for l in v.links:
            if id(l) in seen:
                continue
            seen.add(id(l))
            a, b = l.vertices
            o = nearest(type(l), ref)
            line = f"{title(a, ref)} {o['v1side']}--{o['v2side']} {title(b, ref)}"
            if id(a) in member_ids and id(b) in member_ids:
                required[line] += 1
                internal += 1
                if type(l) not in ref:
                    ctx.count("subclass_resolved_via_ancestor")
            else:
                optional[line] += 1
                ctx.count("links_leaving_universe")
    got = collections.Counter(l for l in lines if REL.match(l))
    ctx.count("relation_lines_checked", sum(got.values()))
    missing = required - got
    rest = got - required
    bogus = rest - optional
    if missing or bogus:
        if missing and bogus:
            # same link, wrong rendering?
            clause = "relation_wrong"
            ml, bl = next(iter(missing)), next(iter(bogus))
            mm, bm = REL.match(ml), REL.match(bl)
            if mm and bm:
                if (mm.group(1), mm.group(4)) == (bm.group(4), bm.group(1)):
                    clause = "relation_reversed"
                elif (mm.group(1), mm.group(4)) == (bm.group(1), bm.group(4)):
                    clause = "relation_wrong_arrow"
        elif missing:
            clause = "relation_missing"
            ml = next(iter(missing))
            mm = REL.match(ml)
            if mm and mm.group(1) == mm.group(4):
                clause += ":selfloop"
        else:
            clause = "relation_for_nonexistent_link"
            if any(got[l] > required[l] + optional[l] and (required[l] or optional[l]) for l in bogus):
                clause = "relation_duplicated"
        ctx.violation(clause, f"relation lines differ (table {tname}): missing {dict(missing)}, unexpected {dict(bogus)}; "
                      f"edges={spec['edges']} uni={spec['uni']} classes={spec['verts']}", case)
        return
    if internal:
        ctx.nontrivial(("p", trav._shape(spec), tname))


def run(ctx):
    rng = random.Random(ctx.seed * 271828 + ctx.shard * 3 + 14)
    quick = ctx.tier == "quick"
    frng = random.Random(14)
    specs = []
    for ecls in (graphs.ECLS_DU, graphs.ECLS_ALL):
        for spec in graphs.family_specs(frng, sizes=(4, 7), ecls=ecls, vcls=graphs.VCLS_X):
            spec = dict(spec)
            if spec["uni"] is None:
                spec["uni"] = list(range(len(spec["verts"])))
            specs.append(spec)
    specs.append({"verts": ["Vertex", "Vertex"], "edges": [], "uni": []})
    specs.append({"verts": ["VSubSub"], "edges": [["DSubSub", 0, 0, 0]], "uni": [0]})
    brng = random.Random(1414)
    for nbig, m in ((30, 120), (260, 600)):
        edges = []
        for k in range(m):
            i, j = brng.randrange(nbig), brng.randrange(nbig)
            c = brng.choice(graphs.ECLS_DU)
            edges.append([c, i, j, k])
            if k % 3 == 0:
                edges.append([c, i, j, k])      # a parallel link of the same class: two identical relation lines
        specs.append({"verts": [brng.choice(["Vertex", "VSub", "VBoth"]) for _ in range(nbig)], "edges": edges,
                      "uni": list(range(nbig)), "big": True})
    # per shard; the default-style tables ('.+' renders every dir() entry of every vertex, character by character)
    # dominate the cost: ~17 ms per rendering
    n_random = ctx.n(1000 if quick else 1200)
    k = 0
    for n in range(len(specs) + n_random):
        if n < len(specs):
            if n % ctx.nshards != ctx.shard:
                continue
            spec = specs[n]
        else:
            ecls = graphs.ECLS_ALL + ["OtherLink~"] if rng.random() < 0.5 else graphs.ECLS_DU
            spec = graphs.rand_spec(rng, nmax=7 if quick else 14, mmax=10 if quick else 30, ecls=ecls, uni_mode="rand",
                                    self_p=0.15, vcls=graphs.VCLS_X)
            if spec["uni"] is None:
                spec["uni"] = [i for i in range(len(spec["verts"])) if rng.random() < 0.8]
                rng.shuffle(spec["uni"])
        has_other = any(e[0] in zoo.OTHER_NAMES for e in spec["edges"])
        for f in graphs.features(spec):
            ctx.count("graphs_with_" + f)
        for tname in TABLE_ALLOWS_OTHER:
            if has_other and not TABLE_ALLOWS_OTHER[tname]:
                continue
            # tables whose show_attrs is '.+' render every dir() entry (slow): every 4th graph only
            if tname in ("default", "otherlinks") and (spec.get("big") or (n >= len(specs) and n % 4)):
                continue
            run_case(ctx, spec, tname)
        k += 1
        if k in (4, 150) and ctx.shard == 0:
            ctx.sample({"spec": spec, "tables": [t for t in TABLE_ALLOWS_OTHER if TABLE_ALLOWS_OTHER[t] or not has_other]})
    ctx.assumptions += [
        "only complete two-ended links whose class (or an ancestor) is configured in the option table",
        "titles are free of whitespace (they need not be unique: table 'sametitle'); attribute renderings do not start a line with a relation pattern",
        "relation lines for links from a member to a non-member may be present (at most once) or absent",
    ]


def replay(ctx, case):
    run_case(ctx, case["spec"], case["table"])
    ctx.nontrivial("replay-a")
    ctx.nontrivial("replay-b")
