"""
C03 -- every mutation has exactly its documented effect and no other (frame property).
"""

from __future__ import annotations

from egverif import histories
from egverif.props import c01

RULE = (
    "cases = call histories over the whole structure + explicit-builder API (constructors, v1/v2 assignment, "
    "add/remove from either side, link_*(dontdup), unlink(destroy), membership and laws ops, ill-typed constructor "
    "arguments) executed on the real library and on a plain-data reference model in lock step; after every op the "
    "complete observable snapshot (ordered links/universes per vertex, ordered ends per link, ordered members per "
    "universe, laws bindings) and the return value are compared.  Ops whose effect the documentation leaves open "
    "(re-adding a listed vertex, removing a multiply listed vertex, anything on a degenerate edge, explicit.* at a "
    "vertex carrying a non-two-ended or degenerate link) are not issued.  Part 1: from 14 base states every op with "
    "every argument to depth 2; part 2: random histories of 40-120 ops on vertices carrying several links (so order "
    "is visible).  Non-trivial = history containing an aliased op; distinct = distinct op sequences."
)
CHECKS = {"C03"}


def floors(ctx):
    f = {"evaluations": 20000 if ctx.tier == "quick" else 200000, "histories": 1000, "ops_raised": 100, "bursts": 500,
         "scripted_dontdup_histories": 30}
    for k in ("op:setv1:loop:new=third", "op:setv2:plain:new=other", "op:setv1:plain:new=old", "op:setv2:half:new=third",
              "op:setv1:plain:new=None", "op:unlink:pair:joined2:keep", "op:unlink:self:joined1:destroy",
              "op:link:pair:joined1:dontdup", "op:link:self:joined1:dontdup", "op:link:pair:joined0:dontdup",
              "op:mke:illtyped", "op:mke:loop", "op:mke:half", "op:v_rm_link:edge:once", "op:l_unlink_from:edge:once",
              "op:v_add_link:edge:absent", "op:u_rm:nonmember:plain", "op:set_laws:u_has_laws:new_bound_elsewhere",
              "op:mkv:links", "op:mkv:unis_dup"):
        f[k] = 1
    return f


def nontrivial_ops(before, after):
    keys = ("loop", "new=old", "new=other", "half", "illtyped", "self:", "joined", "nonmember", "bound_elsewhere", "dup")
    return any(v > before.get(k, 0) and any(x in k for x in keys) for k, v in after.items())


def scripted():
    """
    link_*(a, b, dontdup=True) only ever needs to look at a's links: b may carry anything (an n-ended link, a
    degenerate edge) and more or fewer links than a - the joining links and the returned one are the same.
    """
    out = []
    for fn, cname in (("from_to", "DirectedEdge"), ("from_to", "USub"), ("directed", "DirectedEdge"), ("undirected", "UnDirectedEdge")):
        for extra_on_b in ([["mkl", "M0", ["V1", "V2"], "list"]], [["mkl", "M0", ["V1"], "tuple"]],
                           [["mke", "E9", "DirectedEdge", "V1", None]], []):
            for more_on_a in (0, 2):
                ops = [["mkv", "V0", "Vertex", [], []], ["mkv", "V1", "VSub", [], []], ["mkv", "V2", "Vertex", [], []],
                       ["mke", "E0", "DirectedEdge", "V0", "V1"], ["mke", "E1", "UnDirectedEdge", "V1", "V0"]]
                ops += [["mke", f"E{2 + k}", "DSub", "V0", "V2"] for k in range(more_on_a)]
                ops += extra_on_b
                ops += [["link", fn, "V0", cname, "V1", True, "X0"], ["link", fn, "V0", cname, "V2", True, "X1"],
                        ["link", fn, "V2", cname, "V1", True, "X2"], ["link", fn, "V0", cname, "V1", True, "X3"]]
                out.append(ops)
        # ... and a's own list may hold an n-ended link / an edge that lost its other end BEHIND the joining link
        for awkward in ([["mkl", "M1", ["V0", "V2"], "list"]],
                        [["mke", "E8", "DirectedEdge", "V0", "V2"], ["v_rm_link", "V2", "E8"]]):
            out.append([["mkv", "V0", "Vertex", [], []], ["mkv", "V1", "VSub", [], []], ["mkv", "V2", "Vertex", [], []],
                        ["mke", "E0", "UnDirectedEdge", "V1", "V0"], ["mke", "E1", "DirectedEdge", "V0", "V1"]] + awkward +
                       [["link", fn, "V0", cname, "V1", True, "X0"], ["link", fn, "V1", cname, "V0", True, "X1"]])
    return out


def run(ctx):
    quick = ctx.tier == "quick"
    c01.run(ctx, profile="C03", checks=CHECKS, strict=True, depth=2, nrand=1500 if quick else 6000,
            nontrivial=nontrivial_ops)
    if ctx.shard == 0:
        for ops in scripted():
            eng = histories.replay(ops, CHECKS, True)
            ctx.evaluated(max(1, eng.evals))
            ctx.count("scripted_dontdup_histories")
            if eng.findings:
                histories.report(ctx, eng, CHECKS, True)
    ctx.assumptions[:] = [
        "reference model written from the property statement and docstrings (egverif/model.py)",
        "ops whose effect the documentation leaves open are never issued in this profile (C01 covers them model-free)",
        "dontdup=True may return any already-joining link",
    ]


def replay(ctx, case):
    eng = histories.replay(case["ops"], CHECKS, True)
    ctx.evaluated(max(1, eng.evals))
    if eng.findings:
        histories.report(ctx, eng, CHECKS, True)
    ctx.nontrivial("replay-a")
    ctx.nontrivial("replay-b")
