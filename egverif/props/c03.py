"""
C03 -- every mutation has exactly its documented effect and no other (frame property).
"""

from __future__ import annotations

from egverif import histories
from egverif.props import c01

RULE = (
    "cases = call histories over the whole structure + explicit-builder API (constructors, v1/v2 assignment, "
    "add/remove from either side, link_*(dontdup), unlink(destroy), membership and laws ops, ill-typed constructor "
    "arguments) executed on the real library and on a plain-data reference model in lock step; after every op the "
    "complete observable snapshot (ordered links/universes per vertex, ordered ends per link, ordered members per "
    "universe, laws bindings) and the return value are compared.  Ops whose effect the documentation leaves open "
    "(re-adding a listed vertex, removing a multiply listed vertex, anything on a degenerate edge, explicit.* at a "
    "vertex carrying a non-two-ended or degenerate link) are not issued.  Part 1: from 14 base states every op with "
    "every argument to depth 2; part 2: random histories of 40-120 ops on vertices carrying several links (so order "
    "is visible).  Non-trivial = history containing an aliased op; distinct = distinct op sequences."
)
CHECKS = {"C03"}


def floors(ctx):
    f = {"evaluations": 20000 if ctx.tier == "quick" else 200000, "histories": 1000, "ops_raised": 100, "bursts": 500}
    for k in ("op:setv1:loop:new=third", "op:setv2:plain:new=other", "op:setv1:plain:new=old", "op:setv2:half:new=third",
              "op:setv1:plain:new=None", "op:unlink:pair:joined2:keep", "op:unlink:self:joined1:destroy",
              "op:link:pair:joined1:dontdup", "op:link:self:joined1:dontdup", "op:link:pair:joined0:dontdup",
              "op:mke:illtyped", "op:mke:loop", "op:mke:half", "op:v_rm_link:edge:once", "op:l_unlink_from:edge:once",
              "op:v_add_link:edge:absent", "op:u_rm:nonmember:plain", "op:set_laws:u_has_laws:new_bound_elsewhere",
              "op:mkv:links", "op:mkv:unis_dup"):
        f[k] = 1
    return f


def nontrivial_ops(before, after):
    keys = ("loop", "new=old", "new=other", "half", "illtyped", "self:", "joined", "nonmember", "bound_elsewhere", "dup")
    return any(v > before.get(k, 0) and any(x in k for x in keys) for k, v in after.items())


def run(ctx):
    quick = ctx.tier == "quick"
    c01.run(ctx, profile="C03", checks=CHECKS, strict=True, depth=2, nrand=1500 if quick else 6000,
            nontrivial=nontrivial_ops)
    ctx.assumptions[:] = [
        "reference model written from the property statement and docstrings (egverif/model.py)",
        "ops whose effect the documentation leaves open are never issued in this profile (C01 covers them model-free)",
        "dontdup=True may return any already-joining link",
    ]


def replay(ctx, case):
    eng = histories.replay(case["ops"], CHECKS, True)
    ctx.evaluated(max(1, eng.evals))
    if eng.findings:
        histories.report(ctx, eng, CHECKS, True)
    ctx.nontrivial("replay-a")
    ctx.nontrivial("replay-b")
