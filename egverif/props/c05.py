"""
C05 -- neighbour caching is transparent: cached answers always equal recomputed ones.
"""

from __future__ import annotations

import base64
import copy
import json
import os
import pickle
import random
import re
import subprocess
import sys
import tempfile

import dill

from edgegraph.output import nrpickler
from edgegraph.structure import Universe, Vertex

from egverif import driver, gen, zoo
from egverif.common import ddmin

RULE = (
    "cases = histories of 60-200 ops mixing every public mutator (end assignment, add/remove from either side, "
    "explicit.link_*/unlink, adjacency builders on existing vertices, constructors) with queries (neighbors, find_links, "
    "bft/dft_*/generator forms, bfs/dfs_*, basic_render) over 13 filter callables (plain functions, closures of one factory, bound methods of one function, a falsy callable object, a functools.partial), NEIGHBOR_CACHING toggles at "
    "random points, same-process nrpickler reloads and fresh-interpreter continuations.  After every mutation every "
    "(vertex, direction, unknown, filter) key queried so far is re-queried.  Twin execution: the same history runs once "
    "with caching forced off and once following its flag/pickle schedule; the two logs are compared op by op.  "
    "Non-trivial = history in which a cache hit was observed (public statistics) after a mutation; distinct = distinct "
    "op sequences."
)
SHARDED = True


def floors(ctx):
    q = ctx.tier == "quick"
    f = {"evaluations": 20000 if q else 200000, "histories": 200 if q else 2000,
         "hits_after_mutation": 2000 if q else 20000, "toggle_off_mutate_on_episodes": 20,
         "fresh_interpreter_continuations": 10 if q else 40, "same_process_reloads": 20,
         "same_process_copies_by_other_means": 10}
    for k in ("setv1", "setv2", "v_add_link", "v_rm_link", "l_add_vertex", "l_unlink_from", "link", "unlink", "mke",
              "mkv", "adjdict", "adjmatrix"):
        f["hit_after:" + k] = 1
    return f


QUERY_KEYS = [("FORWARD", "NEIGHBOR", "none"), ("FORWARD", "NEIGHBOR", "even_vertex"), ("FORWARD", "NEIGHBOR", "tagged_edge"),
              ("ANY", "NEIGHBOR", "accept"), ("ANY", "NEIGHBOR", "not_directed"), ("BACKWARD", "NONNEIGHBOR", "tagged_edge"),
              ("FORWARD", "NEIGHBOR", "min1"), ("FORWARD", "NEIGHBOR", "min3"),
              ("ANY", "NEIGHBOR", "tagmod2"), ("ANY", "NEIGHBOR", "tagmod3"),
              ("BACKWARD", "NEIGHBOR", "tagged_edge"), ("FORWARD", "NONNEIGHBOR", "none"),
              ("ANY", "NEIGHBOR", "none"), ("ANY", "ERROR", "not_directed"), ("FORWARD", "ERROR", "none"),
              ("BACKWARD", "NEIGHBOR", "accept"), ("FORWARD", "NONNEIGHBOR", "low_vertex"), ("BACKWARD", "NONNEIGHBOR", "reject")]


class Gen5(gen.Gen):
    def __init__(self, rng):
        w = dict(gen.W_STRUCT)
        w.pop("mke_ill", None)
        w.update({"mkv_u": 1, "mku": 1, "u_add": 2, "u_rm": 1, "adjdict": 2, "adjmatrix": 2,
                  "q_nb": 40, "q_fl": 5, "q_trav": 10, "q_search": 4, "q_render": 4, "cache": 5, "reload": 1})
        super().__init__(rng, "C01", w)
        self.queried = []
        self.dup_uids = rng.random() < 0.4

    def g_adjdict(self, pool):
        if self.count(pool, "U") >= 4:
            return None
        vs = self.plain_vertices(pool)
        if len(vs) < 2:
            return None
        adj = []
        for k in self.rng.sample(vs, min(len(vs), self.rng.randint(1, 3))):
            adj.append([k, [self._pick(vs) for _ in range(self.rng.randint(0, 2))]])
        return ["adjdict", self.fresh("U"), self.rng.choice(["DirectedEdge", "UnDirectedEdge", "OtherLink"]), adj]

    def g_adjmatrix(self, pool):
        if self.count(pool, "U") >= 4:
            return None
        vs = self.plain_vertices(pool)
        if len(vs) < 2:
            return None
        side = self.rng.sample(vs, min(len(vs), self.rng.randint(2, 3)))
        m = [[1 if self.rng.random() < 0.35 else 0 for _ in side] for _ in side]
        return ["adjmatrix", self.fresh("U"), self.rng.choice(["DirectedEdge", "USub"]), side, m]

    def g_q_nb(self, pool):
        v = self._pick(self.vertices(pool))
        if v is None:
            return None
        r = self.rng.random()
        same_v = [q for q in self.queried[-30:] if q[1] == v and not str(q[4]).startswith("fresh:")]
        if r < 0.3 and same_v:
            # a sibling of an earlier query on this vertex: one coordinate (direction or unknown handling) changed,
            # the rest equal - an answer stored for one setting must not be served for another
            _, _, d, u, f = self.rng.choice(same_v)
            if self.rng.random() < 0.6:
                d = self.rng.choice([x for x in ("FORWARD", "ANY", "BACKWARD", "TRUE", "FALSE") if x != d])
            else:
                u = self.rng.choice([x for x in ("NEIGHBOR", "NONNEIGHBOR", "ERROR") if x != u])
        elif r < 0.45:
            # the full product, not only the hand-picked keys
            d = self.rng.choice(["FORWARD", "ANY", "BACKWARD", "TRUE", "FALSE"])
            u = self.rng.choice(["NEIGHBOR", "NONNEIGHBOR", "ERROR"])
            f = self.rng.choice(["none", "none", "accept", "tagged_edge", "even_vertex", "not_directed"])
        else:
            d, u, f = self.rng.choice(QUERY_KEYS[:10]) if self.rng.random() < 0.8 else self.rng.choice(QUERY_KEYS)
        if self.rng.random() < 0.12:
            f = f"fresh:{self.rng.randrange(5)}"  # a filter object that lives for this one query only
        op = ["nb", v, d, u, f]
        if op not in self.queried:
            self.queried.append(op)
        return op

    def g_q_fl(self, pool):
        a, b = self._pair(pool)
        if a is None:
            return None
        return ["fl", a, b, self.rng.random() < 0.5, "NEIGHBOR", self.rng.choice(["none", "tagged_edge"])]

    def g_q_trav(self, pool):
        s = self._pick(self.vertices(pool))
        if s is None:
            return None
        u = None
        us = [n for n in self.universes(pool) if any(x is pool.get(s) for x in pool.get(n).vertices)]
        if us and self.rng.random() < 0.4:
            u = self.rng.choice(us)
        d, unk, f = self.rng.choice(QUERY_KEYS[:10])
        if self.rng.random() < 0.3:
            d = self.rng.choice(["FORWARD", "ANY", "BACKWARD"])
            unk = self.rng.choice(["NEIGHBOR", "NONNEIGHBOR", "ERROR"])
            f = self.rng.choice(["none", "none", "accept", "tagged_edge"])
        fn = self.rng.choice(list(driver.TRAVERSALS))
        return ["trav", fn, u, s, d, unk, f, self.rng.choice(["none", "even"])]

    def g_q_search(self, pool):
        s = self._pick(self.vertices(pool))
        if s is None:
            return None
        return ["search", self.rng.choice(list(driver.SEARCHES)), None, s, "idx", self.rng.randrange(5)]

    def g_q_render(self, pool):
        u = self._pick(self.universes(pool))
        # a rendering between two queries is a read like any other (with a sort key, through the other exporters)
        # (not PlantUML: it walks a SET of links, so on a degenerate graph which bad link it trips over first - and
        # with it the exception type - depends on object addresses, caching or not)
        return None if u is None else ["render", u, self.rng.choice(["plain", "sorted", "sorted", "pyvis"])]

    def g_cache(self, pool):
        return ["cache", self.rng.random() < 0.6]

    def g_reload(self, pool):
        # the graph continues as a copy of itself: through nrpickler, the stock picklers, or copy.deepcopy
        return ["reload", self.rng.choice(["nr", "nr", "pickle", "dill", "deepcopy"])]


def cache_hits():
    m = re.search(r"Hits:\s+(\d+)", Vertex.total_cache_stats())
    return int(m.group(1)) if m else None


def _reset_public_stats():
    """
    Evidence bookkeeping only: the statistics table grows with every vertex
    ever created in this process and total_cache_stats() walks all of it.
    Between histories (no live vertex of the next history exists yet) the
    table is emptied so that reading the public summary stays cheap.
    """
    table = getattr(Vertex, "_CACHE_STATS", None)
    if isinstance(table, dict):
        table.clear()


def generate_history(rng, nops, with_hop):
    """Generate while executing with caching off (structure does not depend on the flag)."""
    Vertex.NEIGHBOR_CACHING = False
    pool = driver.Pool()
    g = Gen5(rng)
    ops = [["cache", rng.random() < 0.8]]
    for op in g.initial(pool, nv=rng.randint(3, 5)):
        driver.execute(pool, op)
        ops.append(op)
    hop_at = rng.randint(nops // 3, 2 * nops // 3) if with_hop else -1
    for i in range(nops):
        if i == hop_at:
            ops.append(["hop"])
            continue
        op = g.next_op(pool)
        if op is None:
            break
        if op[0] in ("cache", "reload"):
            ops.append(op)
            continue
        res = driver.execute(pool, op)
        if res is driver.SKIP:
            continue
        ops.append(op)
        if op[0] in driver.MUTATORS:
            # re-query every key queried so far (bounded), nearest first
            rq = g.queried[-10:]
            if len(g.queried) > 10:
                rq = rq + rng.sample(g.queried[:-10], min(4, len(g.queried) - 10))
            for q in rq:
                if driver.execute(pool, q) is not driver.SKIP:
                    ops.append(q)
    return ops


def _dump_pool(pool):
    return nrpickler.dumps(dict(pool.objs))


def run_off(ops):
    """Twin A: caching forced off for the whole run; no pickle hops."""
    Vertex.NEIGHBOR_CACHING = False
    pool = driver.Pool()
    log = []
    for op in ops:
        if op[0] in ("cache", "reload", "hop"):
            log.append(("ok", None))
            continue
        log.append(driver.execute(pool, op))
    return log


def run_schedule(ops, stats=None):
    """Twin B: follows the history's flag schedule and pickle hops."""
    Vertex.NEIGHBOR_CACHING = False
    pool = driver.Pool()
    log = []
    mutated_kinds = set()
    mutated_while_off = False
    try:
        for i, op in enumerate(ops):
            k = op[0]
            if k == "cache":
                if stats is not None and op[1] and not Vertex.NEIGHBOR_CACHING and mutated_while_off:
                    stats["toggle_off_mutate_on_episodes"] = stats.get("toggle_off_mutate_on_episodes", 0) + 1
                if op[1]:
                    mutated_while_off = False
                Vertex.NEIGHBOR_CACHING = bool(op[1])
                log.append(("ok", None))
                continue
            if k == "reload":
                try:
                    how = op[1] if len(op) > 1 else "nr"
                    new = None
                    if how != "nr":
                        # the stock picklers / deepcopy may refuse for reasons that are not C05's business (a warm
                        # cache entry is keyed by the filter callable, and the stock pickler cannot pickle a closure;
                        # deep graphs recurse): then the graph simply continues through nrpickler
                        try:
                            if how == "deepcopy":
                                new = copy.deepcopy(dict(pool.objs))
                            elif how == "pickle":
                                new = pickle.loads(pickle.dumps(dict(pool.objs)))
                            else:
                                new = dill.loads(dill.dumps(dict(pool.objs)))
                        except Exception:  # noqa: BLE001
                            how = "nr"
                            if stats is not None:
                                stats["stock_copy_refused_fell_back_to_nrpickler"] = stats.get("stock_copy_refused_fell_back_to_nrpickler", 0) + 1
                    if new is None:
                        new = pickle.loads(_dump_pool(pool))
                    pool.rebind(new)
                    log.append(("ok", None))
                    if stats is not None and how != "nr":
                        stats["same_process_copies_by_other_means"] = stats.get("same_process_copies_by_other_means", 0) + 1
                    if stats is not None:
                        stats["same_process_reloads"] = stats.get("same_process_reloads", 0) + 1
                except Exception as exc:  # noqa: BLE001
                    log.append(("exc", "reload:" + type(exc).__name__))
                continue
            if k == "hop":
                try:
                    data = _dump_pool(pool)
                except Exception as exc:  # noqa: BLE001
                    log.append(("exc", "hop:" + type(exc).__name__))
                    continue
                rest = ops[i + 1:]
                sub = continue_in_fresh_interpreter(data, rest, Vertex.NEIGHBOR_CACHING)
                log.append(("ok", None))
                log.extend(tuple(x) for x in sub)
                if stats is not None:
                    stats["fresh_interpreter_continuations"] = stats.get("fresh_interpreter_continuations", 0) + 1
                return log
            h0 = cache_hits() if stats is not None else None
            res = driver.execute(pool, op)
            log.append(res)
            if stats is not None and res is not driver.SKIP:
                if k in driver.MUTATORS:
                    mutated_kinds.add(k)
                    if not Vertex.NEIGHBOR_CACHING:
                        mutated_while_off = True
                elif h0 is not None:
                    h1 = cache_hits()
                    if h1 is not None and h1 > h0:
                        stats["hits"] = stats.get("hits", 0) + (h1 - h0)
                        if mutated_kinds:
                            stats["hits_after_mutation"] = stats.get("hits_after_mutation", 0) + (h1 - h0)
                            for mk in mutated_kinds:
                                stats["hit_after:" + mk] = stats.get("hit_after:" + mk, 0) + 1
    finally:
        Vertex.NEIGHBOR_CACHING = False
    return log


def continue_in_fresh_interpreter(data, ops, cache):
    payload = {"pickle_b64": base64.b64encode(data).decode(), "ops": ops, "cache": bool(cache)}
    fd, path = tempfile.mkstemp(prefix="egv_hop_", suffix=".json")
    try:
        with os.fdopen(fd, "w") as fp:
            json.dump(payload, fp)
        r = subprocess.run([sys.executable, "-B", "-m", "egverif.worker", path], capture_output=True, text=True,
                           timeout=300)
        if r.returncode != 0:
            last = (r.stderr.strip().splitlines() or ["?"])[-1]
            return [["exc", "worker:" + last.split(":")[0]]] * len(ops)
        return json.loads(r.stdout)["log"]
    finally:
        os.unlink(path)


def _norm(x):
    return json.loads(json.dumps(x, default=repr))


def first_divergence(a, b):
    for k, (x, y) in enumerate(zip(a, b)):
        if _norm(x) != _norm(y):
            return k
    if len(a) != len(b):
        return min(len(a), len(b))
    return None


def classify(ops, k, a, b):
    """Mechanism tag from the (shrunk) witness: last mutator before the diverging query, toggles, hops."""
    last_mut = None
    toggled = hopped = reloaded = False
    off_mut = False
    flag = False
    for op in ops[:k]:
        if op[0] in driver.MUTATORS and op[0] not in ("mkv", "mku", "mkw") or op[0] in ("mkv",) and op[3]:
            last_mut = op
            if not flag:
                off_mut = True
        elif op[0] == "cache":
            if op[1] and not flag and off_mut:
                toggled = True
            if op[1]:
                off_mut = False
            flag = bool(op[1])
        elif op[0] == "hop":
            hopped = True
        elif op[0] == "reload":
            reloaded = True
    q = ops[k][0] if k < len(ops) else "?"
    what = "exception:" + str(_norm(b[k])[1]) if k < len(b) and _norm(b[k])[0] == "exc" and _norm(a[k])[0] != "exc" else "differs"
    tag = f"{what}:after={last_mut[0] if last_mut else 'none'}"
    if hopped:
        tag += ":fresh_interpreter"
    elif reloaded:
        tag += ":after_reload"
    if toggled:
        tag += ":mutated_while_flag_off"
    return tag


def judge(ctx, ops, stats):
    _reset_public_stats()
    a = run_off(ops)
    b = run_schedule(ops, stats)
    ctx.evaluated(sum(1 for op in ops if op[0] in driver.QUERIES))
    ctx.count("histories")
    k = first_divergence(a, b)
    if k is None:
        return
    tag = classify(ops, k, a, b)
    small = ops[: k + 1]
    has_hop = any(op[0] == "hop" for op in small)
    if ctx.should_shrink(tag, 1):
        def fails(sub):
            x, y = run_off(sub), run_schedule(sub)
            kk = first_divergence(x, y)
            return kk is not None and classify(sub, kk, x, y) == tag

        if not has_hop and fails(small):
            small = ddmin(small, fails, max_probes=120)
        elif has_hop and fails(small):
            # spawning an interpreter per probe is expensive: shrink only the prefix before the hop coarsely
            hop_i = next(i for i, op in enumerate(small) if op[0] == "hop")
            pre = [op for op in small[:hop_i] if op[0] not in driver.QUERIES]
            cand = pre + small[hop_i:]
            if fails(cand):
                small = cand
    x, y = run_off(small), run_schedule(small)
    kk = first_divergence(x, y)
    if kk is None:
        small, x, y, kk = ops, a, b, k
    ctx.violation(tag, f"op #{kk} {small[kk] if kk < len(small) else '?'}: caching-off run gives {_norm(x[kk]) if kk < len(x) else None}, "
                  f"scheduled run gives {_norm(y[kk]) if kk < len(y) else None}; history={small}", {"ops": small})


def prelude():
    """Seed-independent query-mutate-query scripts: every mutator, called on either end / the edge / explicit."""
    base = [["cache", True], ["mkv", "V0", "Vertex", [], []], ["mkv", "V1", "VSub", [], []], ["mkv", "V2", "Vertex", [], []],
            ["mkv", "V3", "Vertex", [], []], ["mke", "E0", "DirectedEdge", "V0", "V1"], ["mke", "E1", "UnDirectedEdge", "V1", "V2"],
            ["mke", "E2", "OtherLink", "V2", "V0"]]
    qs = [["nb", v, d, u, f] for v in ("V0", "V1", "V2", "V3") for (d, u, f) in QUERY_KEYS[:10]]
    qs += [["trav", "bft", None, "V0", "ANY", "NEIGHBOR", "none", "none"], ["fl", "V0", "V1", False, "NEIGHBOR", "none"],
           ["search", "dfs_recursive", None, "V0", "idx", 3]]
    muts = []
    for e in ("E0", "E1", "E2"):
        for x in ("V0", "V1", "V2", "V3", None):
            muts += [[["setv1", e, x]], [["setv2", e, x]]]
        for v in ("V0", "V1", "V2", "V3"):
            muts += [[["v_rm_link", v, e]], [["l_unlink_from", e, v]], [["v_add_link", v, e]], [["l_add_vertex", e, v]]]
    for a in ("V0", "V1", "V3"):
        for b in ("V0", "V1", "V2"):
            muts += [[["unlink", a, b, True]], [["link", "directed", a, "DirectedEdge", b, False, "E7"]],
                     [["link", "from_to", a, "USub", b, True, "E7"]]]
    muts += [[["mke", "E7", "DSub", "V3", "V0"]], [["mkv", "V7", "Vertex", ["E0"], []]],
             [["adjdict", "U7", "DirectedEdge", [["V0", ["V3"]], ["V3", ["V1", "V1"]]]]],
             [["adjmatrix", "U7", "DirectedEdge", ["V1", "V3"], [[0, 1], [1, 1]]]]]
    # twins: distinct vertices with one uid (two loads of one pickle, Vertex(uid=n) twice) on one edge
    twin = [["cache", True], ["mkv", "V0", "Vertex", [], [], "list", 7], ["mkv", "V1", "Vertex", [], [], "list", 7],
            ["mkv", "V2", "Vertex", [], [], "list", 7], ["mkv", "V3", "Vertex", [], []],
            ["mke", "E0", "DirectedEdge", "V0", "V1"], ["mke", "E1", "UnDirectedEdge", "V1", "V2"], ["mke", "E2", "OtherLink", "V2", "V0"]]
    fresh = [["nb", v, d, u, f"fresh:{n}"] for v in ("V0", "V1", "V2") for (d, u) in (("ANY", "NEIGHBOR"), ("FORWARD", "NEIGHBOR"))
             for n in (0, 3, 1, 4, 2)]
    yield base + fresh
    yield base + fresh + [["trav", "bft", None, "V0", "ANY", "NEIGHBOR", f"fresh:{n}", "none"] for n in (0, 2, 4, 1)]
    for m in muts:
        yield twin + qs + m + qs
    for m in muts:
        yield base + qs + m + qs
        yield base + qs + [["cache", False]] + m + [["cache", True]] + qs
        yield base + qs + m + [["reload"]] + qs


def run(ctx):
    rng = random.Random(ctx.seed * 50021 + ctx.shard * 977 + 5)
    quick = ctx.tier == "quick"
    stats = {}
    n = 0
    for ops in prelude():
        n += 1
        if n % ctx.nshards != ctx.shard:
            continue
        before = stats.get("hits_after_mutation", 0)
        judge(ctx, ops, stats)
        ctx.count("prelude_histories")
        if stats.get("hits_after_mutation", 0) > before:
            ctx.nontrivial(ops)
    # scripted fresh-interpreter continuations (seed-independent): warm the caches, pickle, and in the fresh
    # interpreter mutate BEFORE the first cached query of the affected vertices, then query everything
    base = [["cache", True], ["mkv", "V0", "Vertex", [], []], ["mkv", "V1", "VSub", [], []], ["mkv", "V2", "Vertex", [], []],
            ["mkv", "V3", "Vertex", [], []], ["mke", "E0", "DirectedEdge", "V0", "V1"], ["mke", "E1", "UnDirectedEdge", "V1", "V2"],
            ["mke", "E2", "OtherLink", "V2", "V0"]]
    qs = [["nb", v, d, u, f] for v in ("V0", "V1", "V2", "V3") for (d, u, f) in QUERY_KEYS[:10]]
    qs += [["trav", "bft", None, "V0", "ANY", "NEIGHBOR", "none", "none"], ["fl", "V1", "V0", False, "NEIGHBOR", "none"]]
    hop_muts = [["setv2", "E0", "V3"], ["setv1", "E1", "V3"], ["v_rm_link", "V1", "E0"], ["l_unlink_from", "E1", "V2"],
                ["unlink", "V0", "V1", True], ["link", "directed", "V0", "DirectedEdge", "V3", False, "E7"],
                ["mke", "E7", "UnDirectedEdge", "V3", "V0"], ["l_add_vertex", "E0", "V3"],
                ["adjdict", "U7", "DirectedEdge", [["V0", ["V3"]], ["V3", ["V1"]]]]]
    for n, m in enumerate(hop_muts):
        if n % ctx.nshards != ctx.shard % len(hop_muts) and ctx.nshards > 1:
            continue
        for flag_at_load in (True, False):
            ops = base + qs + [["cache", flag_at_load], ["hop"], m, ["cache", True]] + qs
            before = stats.get("hits_after_mutation", 0)
            judge(ctx, ops, stats)
            ctx.count("scripted_hop_histories")
            if stats.get("hits_after_mutation", 0) > before:
                ctx.nontrivial(ops)
    nhist = ctx.n(260 if quick else 900)
    nhops = 6 if quick else 12
    for i in range(nhist):
        ops = generate_history(rng, rng.randint(60, 200), with_hop=(i < nhops))
        before = stats.get("hits_after_mutation", 0)
        judge(ctx, ops, stats)
        ctx.count("random_histories")
        if stats.get("hits_after_mutation", 0) > before:
            ctx.nontrivial(ops)
        if ctx.shard == 0 and i in (0, 20):
            ctx.sample({"history": ops[:60] + (["..."] if len(ops) > 60 else []), "hop": i < nhops})
    for k, v in stats.items():
        ctx.count(k, v)
    if ctx.tier == "thorough" and ctx.shard == 0:
        # E8: every neighbors() call of the repository's own suite shadowed in place
        from egverif import suite

        suite.run(ctx, "C05")
    ctx.assumptions += [
        "filters are importable pure functions (their identity is part of the cache key)",
        "cache hits are observed through the public Vertex.total_cache_stats() text",
        "the caching-off twin does not go through pickle (a pickling defect would show up here as well as in C10)",
    ]


def replay(ctx, case):
    judge(ctx, case["ops"], {})
    ctx.nontrivial("replay-a")
    ctx.nontrivial("replay-b")
