"""
C10 -- nrpickler round-trips any graph to an isomorphic, usable, detached copy.
"""

from __future__ import annotations

import base64
import inspect
import io
import json
import os
import pickle
import random
import subprocess
import sys
import tempfile

import functools

import dill
from edgegraph.output import nrpickler
from edgegraph.structure import DirectedEdge, Link, UnDirectedEdge, Universe, Vertex
from edgegraph.traversal import helpers

from egverif import byvalue, canon, graphs, histories, oracles, stepmon, zoo

import copyreg

copyreg.pickle(zoo.Handle, zoo.reduce_handle)  # what an application does at start-up: after the library was imported

RULE = (
    "cases = (object graph, root, pickle protocol 0-5, dumps|dump(file), loader pickle|dill, same|fresh interpreter, "
    "NEIGHBOR_CACHING on/off at dump and at load time, warm caches keyed by importable filters).  Graphs: end states of "
    "random structure histories (cycles, self-loops, parallel and half-assigned edges, n-ended links, nested "
    "universes, zoo subclasses), graph-spec families, run-time attributes of primitive and container types (tuples "
    "holding vertices, containers shared between objects, a tuple on a cycle through itself), chains of 1000-3000 "
    "vertices (10000 in thorough) dumped under a recursion limit of current depth + 150, subclasses with __slots__, "
    "classes pickled BY VALUE (defined inside a function, or in the __main__ of a script that dumps for an interpreter "
    "that never saw them) whose methods use super() / closures, with a logical-step monitor on the pickler's drain "
    "loop (a class/function/cell started > 300 times without reaching the memo = dump never terminates).  Oracle: canonical form "
    "(first-visit numbering: class qualnames, uids, public attributes, ordered links/ends/members/universes/laws, "
    "sharing) of copy == original, no object shared with the original, a fixed query battery answers the same, and "
    "mutating the copy leaves the original's form unchanged.  Non-trivial = graph with >=1 link; distinct = distinct "
    "(canonical form shape, configuration)."
)
SHARDED = True


def floors(ctx):
    q = ctx.tier == "quick"
    f = {"evaluations": 300 if q else 3000, "fresh_interpreter_cases": 30 if q else 300, "same_process_cases": 200,
         "deep_graph_cases": 4, "cases_with_warm_cache": 30, "cases_with_container_attrs": 50,
         "cases_with_nested_universes": 10, "copy_mutation_checks": 100,
         "cases_with_big_attrs": 20, "cases_with_classes_pickled_by_value": 20 if q else 100,
         "cases_with_by_value_class_using_super": 10 if q else 60, "cases_with_slotted_subclass": 20,
         "cases_with_classes_defined_in_a_script_main": 10,
         "deep_graphs_referred_to_by_a_by_value_closure": 2, "cases_with_values_of_str_or_int_subclasses": 50,
         "cases_with_deeply_nested_plain_attribute_data": 5, "cases_with_warm_cache_outdated_by_an_edit": 30}
    for p in range(6):
        f[f"proto{p}"] = 10
    f["protodefault"] = 5
    f["protohighest"] = 5
    f["cases_with_dill_options"] = 50
    f["via_dump_file"] = 10
    f["via_dump_sink"] = 10
    for l in ("pickle", "dill"):
        for w in ("same", "fresh"):
            for c in ("cache_on", "cache_off"):
                f[f"{l}:{w}:{c}"] = 5
    return f


# ---------------------------------------------------------------------------
# graph sources
# ---------------------------------------------------------------------------


def decorate(rng, objs, mode):
    """Run-time attributes of primitive and container types."""
    vs = [o for o in objs if isinstance(o, Vertex)]
    if not vs:
        return
    if mode == "none":
        return
    for v in vs:
        if rng.random() < 0.5:
            v.note = rng.choice(["", "a", "ünï", "x" * 50])
            v.weight = rng.choice([0, -1, 2.5, 10 ** 20, float("inf")])
        if rng.random() < 0.3:
            v.data = [1, 2.5, None, "s", [3, (4, 5)], {"k": [6]}]
        if rng.random() < 0.4:
            # values that EQUAL plain strings / ints written elsewhere in the same dump (attribute names, idx
            # values) without being plain strings / ints
            v.kind_tag = zoo.Tag(rng.choice(["idx", "_uid", "note", "a"]))
            v.level = zoo.Level(rng.randrange(3))
            v.colour = rng.choice(list(zoo.Colour))
            v.rank = [zoo.Rank(rng.randrange(2)), rng.randrange(2), "idx", zoo.Tag("idx")]
        if rng.random() < 0.2:
            # a value of a type that is picklable only through the reducer the application registered with copyreg
            # (see run(): registered after the library was imported)
            v.handle = zoo.Handle(rng.choice(["h1", "h2"]))
            if rng.random() < 0.5:
                v.handles = {"spare": [zoo.Handle("h3"), v.handle]}
    if mode == "big":
        # size thresholds of the pickle framing layer (64 KiB) and of small-int / short-string fast paths
        vs[0].text = "x" * 65536
        vs[-1].blob = bytes(range(256)) * 300
        vs[0].short = "y" * 255
        vs[-1].barr = bytearray(b"z" * 70000)
        vs[0].nums = [255, 256, 257, 65535, 65536, 2 ** 31, 2 ** 63, -(2 ** 63) - 1]
        if len(vs) > 1:
            vs[1].text2 = "w" * 70001 + "\u00e9"
    if mode == "deepdata":
        # plain attribute data that nests far deeper than the interpreter's recursion limit: a cons list, a chain of
        # lists, a chain of dicts (the canonical form compares them level by level, iteratively)
        depth = 3000
        cons, lst, dct = None, [], {}
        for i in range(depth):
            cons = (i, cons)
            lst = [lst, i]
            dct = {"next": dct, "i": i}
        vs[0].cons = cons
        vs[-1].nested_list = lst
        vs[0].nested_dict = dct
    if mode in ("containers", "shared"):
        for v in vs:
            if rng.random() < 0.4:
                v.pair = (rng.choice(vs), 3)
            if rng.random() < 0.3:
                v.friends = [rng.choice(vs) for _ in range(rng.randint(0, 3))]
            if rng.random() < 0.2:
                v.meta = {"k": [rng.choice(vs)], "self": v}
    if mode == "shared" and len(vs) >= 2:
        shared = [vs[0], "shared"]
        vs[0].shared = shared
        vs[-1].shared = shared
        vs[0].tshared = (1, 2, "t")
        vs[-1].tshared = vs[0].tshared
        cb = vs[-1].add_to_universe
        vs[0].cb = cb
        vs[-1].cb = cb
        vs[0].pf = functools.partial(helpers.neighbors, vs[-1])
        vs[-1].pf = vs[0].pf
        # immutable containers shared by two objects and lying on a cycle through themselves
        t = (vs[-1], "cyc")
        vs[0].tcyc = t
        vs[-1].tcyc = t
        if rng.random() < 0.5 and not isinstance(vs[-1], zoo.VNamed):
            # (not with a member hashed by value: a SET the caller puts on a cycle through its own member cannot be
            # loaded by any pickler - the member is hashed before it has its state; that is the caller's data, not
            # the library's)
            fs = frozenset([vs[-1]])
            vs[0].fscyc = fs
            vs[-1].fscyc = fs
        if rng.random() < 0.5:
            big = (vs[-1], 1, 2, 3, vs[0])
            vs[0].bigt = big
            vs[-1].bigt = big


def pick_root(rng, objs, kind):
    vs = [o for o in objs if isinstance(o, Vertex)]
    us = [o for o in objs if isinstance(o, Universe)]
    ls = [o for o in objs if isinstance(o, Link)]
    if kind == "universe" and us:
        return us[0]
    if kind == "link" and ls:
        return ls[0]
    if kind == "list":
        return list(vs[:3]) + list(ls[:2])
    if kind == "dict":
        return {"v": vs[0], "all": list(objs[:6]), "u": us[0] if us else None}
    if kind == "everything":
        return list(objs)
    return vs[0]


# ---------------------------------------------------------------------------
# one case
# ---------------------------------------------------------------------------


DILL_KW = [{}, {}, {"recurse": True}, {"byref": True}, {"fmode": 0}, {"byref": False, "recurse": False}]


class _KeepingSink:
    def __init__(self):
        self.chunks = []

    def write(self, data):
        self.chunks.append(data)
        return len(data)


def dump_bytes(root, proto, via, low_recursion=False, kw=None):
    old = sys.getrecursionlimit()
    if low_recursion:
        sys.setrecursionlimit(len(inspect.stack()) + 150)
    try:
        kw = dict(kw or {})
        if via == "dumps":
            return nrpickler.dumps(root, protocol=proto, **kw) if proto is not None else nrpickler.dumps(root, **kw)
        if via == "dump_file":
            # a real (buffered) file object rather than BytesIO
            fd, path = tempfile.mkstemp(prefix="egv_c10_", suffix=".pkl")
            try:
                with os.fdopen(fd, "wb") as fp:
                    nrpickler.dump(root, fp, protocol=proto, **kw)
                with open(path, "rb") as fp:
                    return fp.read()
            finally:
                os.unlink(path)
        if via == "dump_sink":
            # a file-like object in the sense of the pickle protocol - anything with write() - that KEEPS the pieces it
            # is given instead of copying them (a queue feeding a consumer thread, a transport, `chunks.append`)
            sink = _KeepingSink()
            nrpickler.dump(root, sink, protocol=proto, **kw)
            return b"".join(bytes(c) for c in sink.chunks)
        f = io.BytesIO()
        nrpickler.dump(root, f, protocol=proto, **kw)
        return f.getvalue()
    finally:
        sys.setrecursionlimit(old)


def judge_same(ctx, root, cfg, desc, form0, objs0, bat0, data):
    """Load in this process and compare."""
    loader = pickle.loads if cfg["loader"] == "pickle" else dill.loads
    Vertex.NEIGHBOR_CACHING = cfg["cache_load"]
    try:
        res = oracles.outcome(loader, data)
        if res[0] != "ok":
            return f"load_raised:{res[1].__name__}", f"{cfg['loader']}.loads raised {res[1].__name__}"
        walked = oracles.outcome(canon.canonical, res[1])
        if walked[0] != "ok":
            return f"copy_unusable:{walked[1].__name__}", f"reading the copy through its accessors raised {walked[1].__name__}"
        form1, objs1 = walked[1]
        if form1 != form0:
            return "not_isomorphic", _form_diff(form0, form1)
        ids0 = {id(o) for o in objs0}
        if any(id(o) in ids0 for o in objs1):
            return "copy_shares_objects_with_original", "an object of the copy is an object of the original"
        bat1 = canon.battery(objs1)
        if bat1 != bat0:
            k = next(i for i, (a, b) in enumerate(zip(bat0, bat1)) if a != b)
            return "query_differs_on_copy", f"battery query #{k}: original {bat0[k]}, copy {bat1[k]}"
        # mutate the copy; the original must not move
        vs = [o for o in objs1 if isinstance(o, Vertex)]
        if vs:
            ctx.count("copy_mutation_checks")
            v = vs[0]
            for l in list(v.links):
                oracles.outcome(v.remove_from_link, l)
            oracles.outcome(DirectedEdge, v, vs[-1])
            for o in objs1:
                if isinstance(o, Universe):
                    oracles.outcome(o.add_vertex, v)
                    break
            v.extra_attr = 1
            form0b, _ = canon.canonical(root)
            if form0b != form0:
                return "copy_not_detached", "mutating the copy changed the original: " + _form_diff(form0, form0b)
    finally:
        Vertex.NEIGHBOR_CACHING = False
    return None


def _form_diff(a, b):
    if a["top"] != b["top"]:
        return f"top differs: {a['top']} vs {b['top']}"
    if len(a["nodes"]) != len(b["nodes"]):
        return f"{len(a['nodes'])} objects vs {len(b['nodes'])}"
    for i, (x, y) in enumerate(zip(a["nodes"], b["nodes"])):
        if x != y:
            keys = [k for k in set(x) | set(y) if x.get(k) != y.get(k)]
            return f"object #{i} ({x['cls']}) differs in {keys}: {[x.get(k) for k in keys]} vs {[y.get(k) for k in keys]}"
    return "?"


class FreshBatch:
    """Collects payloads and runs them in one fresh interpreter."""

    def __init__(self):
        self.items = []

    def add(self, data, cfg, desc, form0, bat0):
        self.items.append((data, cfg, desc, form0, bat0))

    def flush(self, ctx):
        if not self.items:
            return
        payload = [{"pickle_b64": base64.b64encode(d).decode(), "loader": c["loader"], "cache": c["cache_load"]}
                   for d, c, _, _, _ in self.items]
        fd, path = tempfile.mkstemp(prefix="egv_c10_", suffix=".json")
        try:
            with os.fdopen(fd, "w") as fp:
                json.dump(payload, fp)
            r = subprocess.run([sys.executable, "-B", "-m", "egverif.worker10", path], capture_output=True, text=True,
                               timeout=1200)
            if r.returncode != 0:
                raise RuntimeError("fresh-interpreter worker failed: " + r.stderr[-800:])
            outs = json.loads(r.stdout)
        finally:
            os.unlink(path)
        for (data, cfg, desc, form0, bat0), out in zip(self.items, outs):
            ctx.count("fresh_interpreter_cases")
            case = {"cfg": cfg, "desc": desc}
            tag = None
            if "error" in out:
                tag, what = f"load_raised:{out['error']}", f"loading in a fresh interpreter raised {out['error']}"
            elif json.loads(json.dumps(form0)) != out["form"]:
                tag, what = "not_isomorphic", _form_diff(json.loads(json.dumps(form0)), out["form"])
            elif json.loads(json.dumps(bat0)) != out["battery"]:
                b0 = json.loads(json.dumps(bat0))
                k = next(i for i, (a, b) in enumerate(zip(b0, out["battery"])) if a != b)
                tag, what = "query_differs_on_copy", f"battery query #{k}: original {b0[k]}, fresh-interpreter copy {out['battery'][k]}"
            if tag:
                cache = ":caching_on" if cfg["cache_load"] else ""
                ctx.violation(f"{tag}:fresh_interpreter{cache}", what + f" cfg={cfg}", case)
        self.items = []


def run_main_script(ctx, batch):
    """Classes defined in a script's __main__: dumped there, loaded in an interpreter that never saw them."""
    fd, path = tempfile.mkstemp(prefix="egv_c10_", suffix=".json")
    os.close(fd)
    script = os.path.join(os.path.dirname(os.path.dirname(os.path.abspath(__file__))), "main10.py")
    try:
        try:
            r = subprocess.run([sys.executable, "-B", script, path], capture_output=True, text=True, timeout=600)
        except subprocess.TimeoutExpired:
            ctx.count("main_script_watchdog_fired")  # no verdict from a wall clock
            return
        if r.returncode != 0:
            raise RuntimeError("main10 script failed: " + r.stderr[-800:])
        with open(path) as fp:
            out = json.load(fp)
    finally:
        os.unlink(path)
    for k, rec in enumerate(out["cases"]):
        desc = {"source": "main_script", "n": rec["n"], "proto": rec["proto"]}
        cfg = {"proto": rec["proto"], "via": "dumps", "loader": "pickle" if k % 2 else "dill", "where": "fresh",
               "cache_dump": False, "cache_load": bool(k % 3 == 0), "warm": False}
        ctx.evaluated()
        ctx.count("cases_with_classes_defined_in_a_script_main")
        if not rec["monitored"]:
            ctx.count("step_monitor_not_installable")
        if "error" in rec:
            if rec["error"] == "Diverged":
                ctx.violation("dump_never_terminates:class_pickled_by_value",
                              f"nrpickler.dumps (protocol {rec['proto']}) of a graph over classes defined in the dumping "
                              f"script's __main__ keeps re-expanding one class/function/cell that never reaches the memo",
                              {"cfg": cfg, "desc": desc})
            else:
                ctx.violation(f"dump_raised:{rec['error']}:class_pickled_by_value",
                              f"nrpickler.dumps raised {rec['error']} (protocol {rec['proto']}) on a graph over classes defined "
                              f"in the dumping script's __main__", {"cfg": cfg, "desc": desc})
            continue
        ctx.count(f"{cfg['loader']}:fresh:{'cache_on' if cfg['cache_load'] else 'cache_off'}")
        batch.add(base64.b64decode(rec["pickle_b64"]), cfg, desc, rec["form"], rec["battery"])
    batch.flush(ctx)


def run_case(ctx, rng, cfg, desc, root, objs_all, batch):
    """cfg: proto, via, loader, where, cache_dump, cache_load, warm, low_recursion"""
    case = {"cfg": cfg, "desc": desc}
    Vertex.NEIGHBOR_CACHING = cfg["cache_dump"]
    try:
        if cfg["warm"]:
            ctx.count("cases_with_warm_cache")
            for v in [o for o in objs_all if isinstance(o, Vertex)][:30]:
                oracles.outcome(helpers.neighbors, v, 0, 1, None)
                oracles.outcome(helpers.neighbors, v, 1, 1, zoo.f_tagged_edge)
            if cfg.get("warm") == "then_edit":
                # ... and then edited (a scratch edge comes and goes) and NOT queried again before the dump: whatever
                # the library keeps of the outdated answers travels inside the pickle
                ctx.count("cases_with_warm_cache_outdated_by_an_edit")
                for v in [o for o in objs_all if isinstance(o, Vertex)][:30:2]:
                    e = DirectedEdge(v, v)
                    v.remove_from_link(e)
        # the dump comes FIRST: the oracle's own queries on the original (which would refresh every cache entry)
        # must not stand between the state the caller left the graph in and the pickle
        res = oracles.outcome(dump_bytes, root, cfg["proto"], cfg["via"], cfg.get("low_recursion", False),
                              DILL_KW[cfg.get("dill_kw", 0)])
        form0, objs0 = canon.canonical(root)
        bat0 = canon.battery(objs0)
        if cfg.get("dill_kw", 0) > 1:
            ctx.count("cases_with_dill_options")
    finally:
        Vertex.NEIGHBOR_CACHING = False
    ctx.evaluated()
    if "instance_of" in json.dumps(form0):
        ctx.count("cases_with_values_of_str_or_int_subclasses")
    if any("slots" in n for n in form0["nodes"]):
        if res[0] != "ok" and res[1] is TypeError and cfg["proto"] in (0, 1) \
                and oracles.outcome(pickle.dumps, zoo.VSlots(), cfg["proto"])[0] == "exc":
            # Python itself refuses protocols 0/1 for a class with non-empty __slots__ and no __getstate__
            ctx.count("slotted_class_under_protocol_0_1_refused_by_python_itself")
            return
        ctx.count("cases_with_slotted_subclass")
    ctx.count("proto" + ("default" if cfg["proto"] is None else "highest" if cfg["proto"] == -1 else str(cfg["proto"])))
    ctx.count("via_" + cfg["via"])
    ctx.count(f"{cfg['loader']}:{cfg['where']}:{'cache_on' if cfg['cache_load'] else 'cache_off'}")
    if any(n.get("links") or n.get("ends") for n in form0["nodes"]):
        ctx.nontrivial(("c", str(form0["top"])[:80], len(form0["nodes"]), json.dumps(cfg, sort_keys=True), desc.get("seed"), str(desc.get("spec"))[:200], desc.get("n")))
    if res[0] != "ok":
        sub = ":deep_graph" if cfg.get("low_recursion") else ""
        if desc["source"] == "tuple_cycle" or desc.get("attrs") == "shared":
            sub += ":shared_immutable_container_on_cycle"
        if desc["source"] == "shared_callable":
            sub += ":shared_callable_referring_into_graph"
        if desc["source"] in ("byvalue", "main_script"):
            sub += ":class_pickled_by_value"
        if res[1] is stepmon.Diverged:
            ctx.violation("dump_never_terminates" + sub,
                          f"nrpickler.{cfg['via']} (protocol {cfg['proto']}) keeps re-expanding one class/function/cell that "
                          f"never reaches the memo (> {stepmon.LIMIT} by-value starts of the same object) on {desc}", case)
            return
        ctx.violation(f"dump_raised:{res[1].__name__}{sub}",
                      f"nrpickler.{cfg['via']} raised {res[1].__name__} (protocol {cfg['proto']}) on {desc}", case)
        return
    data = res[1]
    if cfg["where"] == "fresh":
        batch.add(data, cfg, desc, form0, bat0)
        return
    ctx.count("same_process_cases")
    out = judge_same(ctx, root, cfg, desc, form0, objs0, bat0, data)
    if out:
        ctx.violation(out[0] + (":caching_on" if cfg["cache_load"] else ""), out[1] + f" cfg={cfg} desc={desc}", case)


def rand_cfg(rng, fresh_p=0.25):
    return {"proto": rng.choice([0, 1, 2, 3, 4, 5, None, -1]), "dill_kw": rng.randrange(len(DILL_KW)),
            "via": rng.choice(["dumps", "dump", "dump_file", "dump_sink"]),
            "loader": rng.choice(["pickle", "dill"]),
            "where": "fresh" if rng.random() < fresh_p else "same", "cache_dump": rng.random() < 0.5,
            "cache_load": rng.random() < 0.5, "warm": rng.choice([False, False, False, True, "then_edit"])}


def build_from_desc(desc):
    """Deterministic rebuild (used by run and by replay)."""
    r = random.Random(desc.get("dseed", 0))
    if desc["source"] == "history":
        eng = histories.generate(random.Random(desc["seed"]), "C03", set(), desc["nops"], nv=desc["nv"])
        objs = list(eng.pool.objs.values())
    elif desc["source"] == "spec":
        g = graphs.build(desc["spec"])
        objs = g.verts + g.edges + ([g.uni] if g.uni else [])
    elif desc["source"] == "chain":
        n = desc["n"]
        vcls = zoo.VERTEX_CLASSES[desc.get("vcls", "Vertex")]
        vs = [vcls(attributes={"idx": i}) for i in range(n)]
        es = [DirectedEdge(vs[i], vs[i + 1], attributes={"tag": i}) for i in range(n - 1)]
        if desc.get("closed"):
            es.append(UnDirectedEdge(vs[-1], vs[0], attributes={"tag": n}))
        objs = vs + es + [Universe(vertices=vs)]
    elif desc["source"] == "dense":
        n = desc["n"]
        vs = [zoo.VSub(attributes={"idx": i}) for i in range(n)]
        es = [DirectedEdge(vs[i], vs[j], attributes={"tag": i * n + j}) for i in range(n) for j in range(n) if r.random() < desc["p"]]
        objs = vs + es + [Universe(vertices=vs)]
    elif desc["source"] == "nested":
        vs = [Vertex(attributes={"idx": i}) for i in range(4)]
        u0 = Universe(vertices=vs[:2], attributes={"idx": 100})
        u1 = Universe(vertices=[u0, vs[2]], attributes={"idx": 101})
        u1.add_vertex(u1)
        es = [DirectedEdge(vs[0], u0, attributes={"tag": 0}), UnDirectedEdge(u0, u1, attributes={"tag": 1}),
              zoo.OtherLink(u1, u1, attributes={"tag": 2}), DirectedEdge(vs[3], None, attributes={"tag": 3})]
        ml = zoo.MultiLink(vertices=[vs[0], vs[1], vs[0]], attributes={"tag": 4})
        objs = vs + [u0, u1] + es + [ml]
    elif desc["source"] == "shared_callable":
        # one callable object that refers back to a graph object and is held by two objects; the holder that is
        # pickled first got it through attributes= (so it precedes _links/_universes in its __dict__)
        hub = Vertex(attributes={"idx": 0})
        kind = desc.get("kind", "method")
        if kind == "method":
            cb = hub.add_to_universe
        elif kind == "partial":
            cb = functools.partial(helpers.neighbors, hub, 1)
        else:
            cb = (hub.add_to_link, "x")
        leaf = Vertex(attributes={"cb": cb, "idx": 1})
        hub.cb = cb
        leaf2 = Vertex(attributes={"idx": 2, "cb": cb})
        if desc.get("linked"):
            DirectedEdge(leaf, hub, attributes={"tag": 0})
        objs = [leaf, leaf2, hub]
    elif desc["source"] == "byvalue":
        objs = byvalue.build(desc["variant"])
    elif desc["source"] == "tuple_cycle":
        # a tuple shared by two objects, on a cycle through the tuple itself
        u, v = Vertex(attributes={"idx": 0}), Vertex(attributes={"idx": 1})
        t = (v,)
        u.t = t
        v.t = t
        if desc.get("linked"):
            DirectedEdge(u, v, attributes={"tag": 0})
        objs = [u, v]
    else:
        raise ValueError(desc)
    decorate(r, objs, desc.get("attrs", "none"))
    return objs


def run(ctx):
    rng = random.Random(ctx.seed * 611953 + ctx.shard * 101 + 10)
    quick = ctx.tier == "quick"
    batch = FreshBatch()
    descs = []
    # deterministic scenarios (every shard runs a slice)
    fixed = [{"source": "nested", "attrs": a} for a in ("none", "containers", "shared", "big")]
    fixed += [{"source": "tuple_cycle", "linked": l, "attrs": "none"} for l in (False, True)]
    fixed += [{"source": "shared_callable", "kind": k_, "linked": l, "attrs": "none"} for k_ in ("method", "partial", "tuple_of_method")
              for l in (False, True)]
    fixed += [{"source": "chain", "n": n, "closed": c, "attrs": "none"} for n in (5, 50) for c in (False, True)]
    if stepmon.install():
        fixed += [{"source": "byvalue", "variant": v_, "attrs": a_} for v_, a_ in (
            ("plain", "none"), ("super", "none"), ("child+edges", "prims"), ("mixed+edges+uni", "containers"),
            ("mixed+closure", "none"), ("super+uni+closure", "shared"), ("chain:8:Vertex", "none"),
            ("chain:8:LSuper", "none"))]
    else:
        ctx.count("step_monitor_not_installable")
    fixed += [{"source": "dense", "n": 12, "p": 0.5, "attrs": "containers", "dseed": 3}]
    k = 0
    for desc in fixed:
        for proto in range(6):
            for loader in ("pickle", "dill"):
                for where in ("same", "fresh"):
                    k += 1
                    if k % ctx.nshards != ctx.shard:
                        continue
                    cfg = {"proto": proto, "via": "dumps" if k % 2 else "dump", "loader": loader, "where": where,
                           "cache_dump": bool(k % 3), "cache_load": bool((k // 2) % 2), "warm": bool(k % 5 == 0)}
                    objs = build_from_desc(desc)
                    if desc["source"] == "nested":
                        ctx.count("cases_with_nested_universes")
                    if desc["source"] == "byvalue":
                        ctx.count("cases_with_classes_pickled_by_value")
                        if "super" in desc["variant"] or "child" in desc["variant"] or "mixed" in desc["variant"]:
                            ctx.count("cases_with_by_value_class_using_super")
                    if desc["attrs"] != "none":
                        ctx.count("cases_with_container_attrs")
                    if desc["attrs"] == "big":
                        ctx.count("cases_with_big_attrs")
                    root = pick_root(rng, objs, ["vertex", "universe", "link", "list", "dict", "everything"][k % 6])
                    run_case(ctx, rng, cfg, dict(desc, root=k % 6), root, objs, batch)
    if ctx.shard == 0:
        run_main_script(ctx, batch)
    # deep graphs under a low recursion limit
    # (size, vertex class): depth must not matter for any vertex class - callable instances, slots, ... included
    deep = [(1000, "Vertex"), (3000, "Vertex"), (1500, "VCallable"), (1200, "VSlots")]
    if not quick:
        deep += [(6000, "Vertex"), (10000, "Vertex"), (4000, "VCallable"), (3000, "StrVertex")]
    if stepmon.STATS["installed"]:
        # by-value functions whose closures refer into a deep graph, written before the vertex they refer to
        deep += [(400, "byvalue:Vertex"), (1500, "byvalue:LSuper")] if quick else [(400, "byvalue:Vertex"), (3000, "byvalue:LSuper"), (2000, "byvalue:LPlain")]
    for i, (n, vcls) in enumerate(deep):
        if i % ctx.nshards != ctx.shard % max(1, len(deep)) and ctx.nshards > 1:
            continue
        desc = {"source": "chain", "n": n, "closed": bool(i % 2), "attrs": "none", "vcls": vcls}
        if vcls.startswith("byvalue:"):
            desc = {"source": "byvalue", "variant": f"chain:{n}:{vcls.split(':')[1]}", "attrs": "none"}
            ctx.count("deep_graphs_referred_to_by_a_by_value_closure")
        objs = build_from_desc(desc)
        cfg = {"proto": [4, 2, 5, 3][i % 4], "via": "dumps", "loader": "pickle", "where": "same" if i % 2 else "fresh",
               "cache_dump": False, "cache_load": bool(i % 2), "warm": False, "low_recursion": True}
        ctx.count("deep_graph_cases")
        run_case(ctx, rng, cfg, desc, objs[0] if desc["source"] == "byvalue" else objs[-1], objs, batch)
    # random graphs
    n_rand = ctx.n(1200 if quick else 3000)
    for i in range(n_rand):
        if rng.random() < 0.6:
            desc = {"source": "history", "seed": rng.randrange(10 ** 9), "nops": rng.randint(10, 60), "nv": rng.randint(3, 5)}
        else:
            desc = {"source": "spec", "spec": graphs.rand_spec(rng, nmax=8, mmax=16, uni_mode="rand",
                                                               vcls=graphs.VCLS_MIX + ["VNamed", "VNamed"])}
        desc["attrs"] = rng.choice(["none", "prims", "containers", "shared", "shared", "big"] if i % 9 else ["big"])
        if i % 60 == 7:
            desc["attrs"] = "deepdata"
            ctx.count("cases_with_deeply_nested_plain_attribute_data")
        desc["dseed"] = rng.randrange(10 ** 6)
        objs = build_from_desc(desc)
        if not any(isinstance(o, Vertex) for o in objs):
            continue
        if desc["attrs"] in ("containers", "shared"):
            ctx.count("cases_with_container_attrs")
        if desc["attrs"] == "big":
            ctx.count("cases_with_big_attrs")
        kind = rng.choice(["vertex", "universe", "link", "list", "dict", "everything"])
        desc["rootkind"] = kind
        desc["rseed"] = rng.randrange(10 ** 6)
        root = pick_root(random.Random(desc["rseed"]), objs, kind)
        cfg = rand_cfg(rng)
        run_case(ctx, rng, cfg, desc, root, objs, batch)
        if ctx.shard == 0 and i in (1, 30):
            ctx.sample({"desc": {k: (v if k != "spec" else v) for k, v in desc.items()}, "cfg": cfg})
        if len(batch.items) >= 60:
            batch.flush(ctx)
    batch.flush(ctx)
    ctx.count("by_value_save_starts_observed", stepmon.STATS["starts_observed"])
    ctx.counters["max_by_value_starts_of_one_object"] = max(ctx.counters.get("max_by_value_starts_of_one_object", 0),
                                                            stepmon.STATS["max_starts_of_one_object"])
    ctx.assumptions += [
        "attribute containers are compared by value; sharing is compared for graph objects (vertices, links, universes, laws)",
        "CPython 3.12 + dill 0.4.1; 'regardless of size' explored up to 3000 (10000 thorough) vertices under a recursion "
        "limit of current depth + 150 (dumps is quadratic in graph size)",
    ]


def replay(ctx, case):
    desc, cfg = case["desc"], case["cfg"]
    objs = build_from_desc(desc)
    if "rootkind" in desc:
        root = pick_root(random.Random(desc["rseed"]), objs, desc["rootkind"])
    elif "root" in desc:
        root = pick_root(random.Random(0), objs, ["vertex", "universe", "link", "list", "dict", "everything"][desc["root"]])
    else:
        root = objs[-1]
    batch = FreshBatch()
    run_case(ctx, random.Random(0), cfg, desc, root, objs, batch)
    batch.flush(ctx)
    ctx.nontrivial("replay-a")
    ctx.nontrivial("replay-b")
