"""
C17 -- semi-singletons: per class, instances correspond one-to-one to argument keys.
"""

from __future__ import annotations

import json
import random

from edgegraph.structure import Vertex, singleton

from egverif import oracles
from egverif.common import ddmin

RULE = (
    "cases = histories of 30-100 calls (construct, add_mapping, drop_semi_singleton_mapping, clear_semi_singleton, "
    "check_semi_singleton_entry_exists, get_all_semi_singleton_instances) over 8 classes in 5 arrangements (own "
    "metaclass each, two classes sharing one metaclass object, a subclass of a semi-singleton class, a custom "
    "hashfunc, a Vertex subclass), arguments from a hostile value set (-1/-2 equal hashes, 0/0.0/False, nested "
    "tuples, one tuple argument vs the same values spread over several arguments, keyword permutations, positional vs "
    "keyword).  A lock-step model {class -> {key -> instance}} judges "
    "every call (identity, type, __init__ count, reported mappings).  Non-trivial = history with >=1 cache hit and "
    ">=2 classes touched; distinct = distinct op sequences."
)

VALUES = [-1, -2, 0, 0.0, False, 1, True, 1.0, 2, "a", "", "-1", ("t", 1), ("t", (1, 2)), None, 10 ** 18, -(10 ** 18),
          "x" * 200, 3.5, (-1,), (-2,), 256, 257, 1000, "k" * 70000,
          # one tuple argument vs the same values spread over several arguments (and the empty tuple vs no argument)
          (1, 2), (), (-1, -2), ((1, 2),),
          # a positional STRING that is, character for character, what a serialiser makes of keyword arguments
          '{"a": 1}', '{"a": 1, "b": 2}', '{}', "a=1", "(1,)", "{'a': 1}",
          # different strings that render alike: composed vs decomposed, full-width digit, non-breaking space
          "Z\u00fcrich", "Zu\u0308rich", "\uff11", "a\u00a0b", "a b"]


class ClassRef:
    """Stands for one of the history's own classes used as an ARGUMENT (a per-class record: `Info(Node)`)."""

    def __init__(self, name):
        self.name = name

    def __repr__(self):
        return f"<class {self.name}>"


I_CLS_A, I_CLS_B, I_CLS_S = len(VALUES), len(VALUES) + 1, len(VALUES) + 2
VALUES += [ClassRef("KeyedA"), ClassRef("KeyedB"), ClassRef("SharedA")]
CURRENT_CLASSES = {}
I_J_A1, I_J_A1B2, I_J_EMPTY = 29, 30, 31
I_ONE, I_TWO, I_T12, I_EMPTY, I_TM, I_TT12 = 5, 8, 25, 26, 27, 28
KWSETS = [{}, {"a": 1}, {"a": 1, "b": 2}, {"b": 2, "a": 1}, {"a": [1, 2]}, {"a": {"k": 1}}, {"a": -1}, {"a": -2},
          {"a": None}, {"z": "s", "a": 1.0}, {"a": 1.0}, {"a": True},
          # nested containers: the documented key (json.dumps(..., sort_keys=True)) canonicalises nested dicts too
          {"a": {"x": 1, "y": 2}}, {"a": {"y": 2, "x": 1}}, {"a": [{"p": 1, "q": [1, 2]}]}, {"a": [{"q": [1, 2], "p": 1}]},
          {"a": {"x": 1, "y": 2}, "b": 0}, {"b": 0, "a": {"y": 2, "x": 1}},
          # keyword names an implementation might use for its own parameters
          # (not "cls" / "obj": those are the documented first parameters of check_/drop_/add_mapping themselves)
          {"key": 1}, {"instances": 2, "hashid": 3}, {"factory": 0, "hashfunc": 1}, {"args": 1, "kwargs": 2}, {"name": "n"},
          {"self_": 1, "mcls": 2},
          {"a": "Z\u00fcrich"}, {"a": "Zu\u0308rich"}, {"a": "\uff11"}, {"a": "1"}, {"a": "a\u00a0b"}, {"a": "a b"}]

INIT_LOG = []


def _first_arg(args, kwargs):
    return args[0] if args else None


def _call_order(args, kwargs):
    """A user hash function for which the ORDER of the keyword arguments matters (as written at the call site)."""
    return (args, repr(list(kwargs.items())))


def make_classes():
    """Fresh metaclasses and classes for one history."""
    del INIT_LOG[:]

    class Base:
        def __init__(self, *args, **kwargs):
            INIT_LOG.append((type(self).__name__, id(self), args, dict(kwargs)))
            self.args = args

    M_shared = singleton.semi_singleton_metaclass()
    M_parent = singleton.semi_singleton_metaclass()

    class Own1(Base, metaclass=singleton.semi_singleton_metaclass()):
        pass

    class Own2(Base, metaclass=singleton.semi_singleton_metaclass()):
        pass

    class SharedA(Base, metaclass=M_shared):
        pass

    class SharedB(Base, metaclass=M_shared):
        pass

    class Parent(Base, metaclass=M_parent):
        pass

    class Child(Parent):
        pass

    class Custom(Base, metaclass=singleton.semi_singleton_metaclass(hashfunc=_first_arg)):
        pass

    M_keyed = singleton.semi_singleton_metaclass(hashfunc=_first_arg)

    class KeyedA(Base, metaclass=M_keyed):
        """Shares ONE custom-key metaclass (the key is the bare first argument) with KeyedB."""

    class KeyedB(Base, metaclass=M_keyed):
        pass

    class OrderKey(Base, metaclass=singleton.semi_singleton_metaclass(hashfunc=_call_order)):
        pass

    class Shadowy(Base, metaclass=singleton.semi_singleton_metaclass()):
        """A class with class-level mappings of its own under names a registry might use."""

        _instances = {}
        instances = {}
        _instance_map = {}
        instance_map = {}
        _semisingleton_instance_map = {}
        __semisingleton_instance_map = {}
        _map = {}

    class Factory(Base, metaclass=singleton.semi_singleton_metaclass()):
        """__new__ hands out an instance of an implementation subclass (as pathlib.Path() hands out a PosixPath)."""

        def __new__(cls, *args, **kwargs):
            if cls is Factory:
                cls = FactoryImpl
            return super().__new__(cls)

    class FactoryImpl(Factory):
        pass

    class EmptyBag(Base, metaclass=singleton.semi_singleton_metaclass()):
        """Container-like class: its instances are falsy (len 0)."""

        def __len__(self):
            return 0

    class Normalizer(metaclass=singleton.semi_singleton_metaclass()):
        """__init__ edits its mutable keyword arguments in place (sorts lists, adds a default key to dicts)."""

        def __init__(self, *args, **kwargs):
            INIT_LOG.append((type(self).__name__, id(self), tuple(args), json.loads(json.dumps(kwargs))))
            for v in kwargs.values():
                if isinstance(v, list):
                    v.append("normalised")
                elif isinstance(v, dict):
                    v.setdefault("normalised", True)
            self.args = args

    class Picky(Base, metaclass=singleton.semi_singleton_metaclass()):
        """__init__ refuses some arguments (validation): a failed construction must leave no mapping behind."""

        def __init__(self, *args, **kwargs):
            if args and args[0] in (-2, "a", 2):
                raise ValueError("refused")
            super().__init__(*args, **kwargs)

    class SVertex(Vertex, metaclass=singleton.semi_singleton_metaclass()):
        def __init__(self, *args, **kwargs):
            INIT_LOG.append((type(self).__name__, id(self), args, dict(kwargs)))
            super().__init__()

    classes = {c.__name__: c for c in (Own1, Own2, SharedA, SharedB, Parent, Child, Custom, SVertex, EmptyBag, Normalizer, Picky, OrderKey, Factory, Shadowy, KeyedA, KeyedB)}
    return classes


CLASS_NAMES = ["Own1", "Own2", "SharedA", "SharedB", "Parent", "Child", "Custom", "SVertex", "EmptyBag", "Normalizer", "Picky", "OrderKey", "Factory", "Shadowy", "KeyedA", "KeyedB"]
ARRANGEMENT = {"Own1": "own", "Own2": "own", "SharedA": "shared_metaclass", "SharedB": "shared_metaclass",
               "Parent": "subclassing", "Child": "subclassing", "Custom": "custom_hashfunc", "SVertex": "vertex_subclass", "EmptyBag": "falsy_instances", "Normalizer": "init_mutates_arguments", "Picky": "init_may_raise", "OrderKey": "keyword_order_sensitive_hashfunc", "Factory": "new_returns_subclass_instance", "Shadowy": "class_attributes_named_like_a_registry",
               "KeyedA": "shared_metaclass_with_bare_argument_keys", "KeyedB": "shared_metaclass_with_bare_argument_keys"}


def model_key(cname, args, kwargs):
    if cname in ("Custom", "KeyedA", "KeyedB"):
        return ("custom", _first_arg(args, kwargs))
    if cname == "OrderKey":
        return ("order",) + _call_order(args, kwargs)
    return ("default", args, json.dumps(kwargs, sort_keys=True))


def _fresh(v):
    """An object equal to v but (where the type allows) not the same object: keys must compare by ==, not `is`."""
    if isinstance(v, bool) or v is None:
        return v
    if isinstance(v, ClassRef):
        return CURRENT_CLASSES[v.name]
    if isinstance(v, int):
        return int(str(v))
    if isinstance(v, float):
        return float(repr(v))
    if isinstance(v, str):
        return "".join(list(v))
    if isinstance(v, tuple):
        return tuple(_fresh(x) for x in v)
    if isinstance(v, list):
        return [_fresh(x) for x in v]
    if isinstance(v, dict):
        return {_fresh(k): _fresh(x) for k, x in v.items()}
    return v


def _args(op):
    return tuple(_fresh(VALUES[i]) for i in op["a"]), _fresh(dict(KWSETS[op["k"]]))


def run_history(ctx, ops, record=True):
    """Execute ops against the real code and the model.  Returns list of (mechanism, what)."""
    classes = make_classes()
    CURRENT_CLASSES.clear()
    CURRENT_CLASSES.update(classes)
    model = {c: {} for c in classes}  # cname -> {key -> inst}
    created = []  # every instance ever made, in order
    found = []
    hits = 0
    touched = set()

    def viol(mech, what, k):
        found.append((mech, f"op #{k} {ops[k]}: {what}"))

    def live_ids(c):
        return {id(x) for x in model[c].values()}

    def check_frame(k, touched_class, before):
        # operations on one class never change what another class returns
        for c, cls in classes.items():
            if c == touched_class:
                continue
            got = oracles.outcome(lambda: list(singleton.get_all_semi_singleton_instances(cls)))
            if got[0] != "ok" or {id(x) for x in got[1]} != before[c]:
                viol(f"cross_class:{ARRANGEMENT[touched_class]}:{ops[k]['op']}",
                     f"live instances of {c} changed from {len(before[c])} to "
                     f"{len(got[1]) if got[0] == 'ok' else got[1].__name__} objects after an operation on {touched_class}", k)
                return

    for k, op in enumerate(ops):
        kind, cname = op["op"], op["c"]
        cls = classes[cname]
        touched.add(cname)
        before = {c: live_ids(c) for c in classes}
        if record:
            ctx.evaluated()
        if kind == "new":
            args, kwargs = _args(op)
            key = model_key(cname, args, kwargs)  # from the arguments as passed: __init__ may edit them in place
            passed_kwargs = json.loads(json.dumps(kwargs))
            n0 = len(INIT_LOG)
            if k % 4 == 2:
                # (every fourth construction is made while the caller is handling an unrelated exception)
                try:
                    raise LookupError("something unrelated the caller is dealing with")
                except LookupError:
                    res = oracles.outcome(cls, *args, **kwargs)
            else:
                res = oracles.outcome(cls, *args, **kwargs)
            kwargs = passed_kwargs
            if res[0] != "ok" and cname == "Picky" and key not in model[cname] and res[1] is ValueError:
                # the constructor refused: no instance was handed out, so no mapping may exist (checked below through
                # get_all / check_exists and by every later construction with this key)
                refused = True
            elif res[0] != "ok":
                viol(f"construct:raised:{res[1].__name__}", f"{cname}{args}{kwargs} raised", k)
                break
            if res[0] != "ok":
                obj, ninit = None, 0
            else:
                obj = res[1]
                ninit = len(INIT_LOG) - n0
            if res[0] != "ok":
                exists = oracles.outcome(singleton.check_semi_singleton_entry_exists, cls, *_args(op)[0], **_args(op)[1])
                if exists[0] != "ok" or exists[1] is not None:
                    viol("construct:failed_init_left_a_mapping", "the constructor raised, yet check_semi_singleton_entry_exists "
                         "reports an instance for that key", k)
                    break
            elif key in model[cname]:
                hits += 1
                exp = model[cname][key]
                if obj is not exp:
                    viol(f"construct:live_key_returned_other_object:{ARRANGEMENT[cname]}",
                         f"{cname}{args}{kwargs} has a live key but returned a different object", k)
                    break
                if ninit:
                    viol("construct:init_rerun_on_hit", f"__init__ ran {ninit}x on a cache hit", k)
                    break
            else:
                if any(obj is o for o in created):
                    owner = next(c for c in classes for o in model[c].values() if o is obj) if any(
                        obj is o for c in classes for o in model[c].values()) else "a dropped instance"
                    sub = "other_class" if owner != cname else "same_class"
                    if owner == cname:
                        okey = next(kk for kk, o in model[cname].items() if o is obj)
                        sub += ":equal_hash_keys" if _h(okey) == _h(key) else ""
                    viol(f"construct:new_key_returned_existing:{ARRANGEMENT[cname]}:{sub}",
                         f"{cname}{args}{kwargs} is a new key but returned an existing object (of {owner})", k)
                    break
                if not isinstance(obj, cls) or (type(obj) is not cls and cname != "Factory"):
                    viol(f"construct:wrong_type:{ARRANGEMENT[cname]}", f"{cname}(...) returned a {type(obj).__name__}", k)
                    break
                if ninit != 1 or INIT_LOG[-1][2] != args or INIT_LOG[-1][3] != kwargs:
                    viol("construct:init_count", f"__init__ ran {ninit}x for a new key", k)
                    break
                model[cname][key] = obj
                created.append(obj)
        elif kind == "add" and cname == "Factory":
            # add_mapping(obj, ...) files the mapping under type(obj) - here the implementation subclass, which is a
            # class of its own with keys of its own; nothing the property says about Factory is touched by it
            continue
        elif kind == "add":
            insts = list(model[cname].values())
            if not insts:
                continue
            obj = insts[op["i"] % len(insts)]
            args, kwargs = _args(op)
            res = oracles.outcome(singleton.add_mapping, obj, *args, **kwargs)
            if res[0] != "ok":
                viol(f"add_mapping:raised:{res[1].__name__}", "add_mapping raised", k)
                break
            model[cname][model_key(cname, args, kwargs)] = obj
        elif kind == "drop":
            args, kwargs = _args(op)
            key = model_key(cname, args, kwargs)
            n0 = len(INIT_LOG)
            res = oracles.outcome(singleton.drop_semi_singleton_mapping, cls, *args, **kwargs)
            if key in model[cname]:
                if res[0] != "ok":
                    viol(f"drop:raised_for_live_key:{ARRANGEMENT[cname]}", f"drop of a live key raised {res[1].__name__}", k)
                    break
                del model[cname][key]
            else:
                # dropping an absent mapping: must not remove anything (raising is the documented outcome)
                pass
            if len(INIT_LOG) != n0:
                viol("drop:created_instance", "drop ran __init__", k)
                break
        elif kind == "clear":
            res = oracles.outcome(singleton.clear_semi_singleton, cls)
            if res[0] != "ok":
                viol(f"clear:raised:{res[1].__name__}", "clear raised", k)
                break
            model[cname] = {}
        elif kind == "check":
            args, kwargs = _args(op)
            key = model_key(cname, args, kwargs)
            n0 = len(INIT_LOG)
            res = oracles.outcome(singleton.check_semi_singleton_entry_exists, cls, *args, **kwargs)
            exp = model[cname].get(key)
            if res[0] != "ok" or res[1] is not exp or len(INIT_LOG) != n0:
                what = ("raised " + res[1].__name__) if res[0] != "ok" else (
                    "created an instance" if len(INIT_LOG) != n0 else
                    f"returned {'an object' if res[1] is not None else 'None'}, model has {'an object' if exp is not None else 'no mapping'}")
                sub = "reports_absent_key" if exp is None else "misses_live_key"
                viol(f"check_exists:{sub}:{ARRANGEMENT[cname]}", f"check_semi_singleton_entry_exists({cname}, {args}, {kwargs}) {what}", k)
                break
        # after every op: get_all of the touched class, frame for the others
        got = oracles.outcome(lambda: list(singleton.get_all_semi_singleton_instances(cls)))
        if got[0] != "ok" or {id(x) for x in got[1]} != live_ids(cname):
            n = len(got[1]) if got[0] == "ok" else got[1].__name__
            extra = got[0] == "ok" and any(id(x) not in live_ids(cname) for x in got[1])
            viol(f"get_all:{'reports_foreign_or_dead' if extra else 'misses_live'}:{ARRANGEMENT[cname]}",
                 f"get_all_semi_singleton_instances({cname}) yields {n} objects, model has {len(live_ids(cname))} live "
                 f"instances after {kind}", k)
            break
        nf = len(found)
        check_frame(k, cname, before)
        if len(found) > nf:
            break
    return found, hits, len(touched)


def _h(key):
    try:
        return hash(key[1:])
    except TypeError:
        return None


def gen_history(rng, nops):
    # few classes and few values per history so that hits, collisions and cross-class reuse are the norm
    names = rng.sample(CLASS_NAMES, rng.randint(2, 4))
    if rng.random() < 0.5:
        names += rng.choice([["SharedA", "SharedB"], ["Parent", "Child"]])
    vals = rng.sample(range(len(VALUES)), rng.randint(2, 5))
    if rng.random() < 0.5:
        vals += [0, 1]  # -1 and -2
    if rng.random() < 0.35:
        vals += [I_ONE, I_TWO, I_T12, I_EMPTY]
    if rng.random() < 0.25:
        vals += [I_ONE, I_J_A1, I_J_A1B2, I_J_EMPTY]
    if rng.random() < 0.3:
        # class objects as arguments, among classes whose key is the bare argument
        names += ["KeyedA", "KeyedB"]
        vals += [I_CLS_A, I_CLS_B, I_CLS_S]
    kws = rng.sample(range(len(KWSETS)), rng.randint(1, 3))
    if rng.random() < 0.7:
        kws.append(0)
    ops = []
    for _ in range(nops):
        r = rng.random()
        kind = "new" if r < 0.55 else "check" if r < 0.7 else "add" if r < 0.8 else "drop" if r < 0.92 else "clear"
        na = rng.choice([0, 1, 1, 1, 2])
        ops.append({"op": kind, "c": rng.choice(names), "a": [rng.choice(vals) for _ in range(na)],
                    "k": rng.choice(kws), "i": rng.randrange(4)})
    return ops


def prelude():
    """Seed-independent scripts that make every arrangement x situation appear."""
    out = []
    for a, b in (("Own1", "Own2"), ("SharedA", "SharedB"), ("Parent", "Child"), ("Child", "Parent"), ("Custom", "Own1"),
                 ("SVertex", "Own1"), ("SharedB", "SharedA"), ("EmptyBag", "Own1"), ("Own2", "EmptyBag"), ("Normalizer", "Own1"), ("Picky", "Own2"), ("OrderKey", "Own1"), ("Own2", "OrderKey"), ("Factory", "Own1"), ("Parent", "Factory"), ("Shadowy", "Own1"), ("Own2", "Shadowy"),
                 ("KeyedA", "KeyedB"), ("KeyedB", "KeyedA")):
        for v1, v2 in ((0, 1), (2, 3), (5, 6), (12, 13), (19, 20), (9, 9)) + (
                ((I_CLS_A, I_CLS_B), (I_CLS_B, I_CLS_A), (I_CLS_S, I_CLS_A)) if a.startswith(("Keyed", "Shared")) else ()):
            out.append([
                {"op": "new", "c": a, "a": [v1], "k": 0, "i": 0},
                {"op": "new", "c": b, "a": [v1], "k": 0, "i": 0},
                {"op": "new", "c": a, "a": [v2], "k": 0, "i": 0},
                {"op": "new", "c": a, "a": [v1], "k": 0, "i": 0},
                {"op": "check", "c": b, "a": [v2], "k": 0, "i": 0},
                {"op": "add", "c": a, "a": [8], "k": 1, "i": 0},
                {"op": "new", "c": b, "a": [8], "k": 1, "i": 0},
                {"op": "drop", "c": b, "a": [v1], "k": 0, "i": 0},
                {"op": "new", "c": a, "a": [v1], "k": 0, "i": 0},
                {"op": "clear", "c": a, "a": [], "k": 0, "i": 0},
                {"op": "new", "c": b, "a": [8], "k": 1, "i": 0},
                {"op": "new", "c": a, "a": [v1], "k": 0, "i": 0},
                {"op": "new", "c": a, "a": [], "k": 2, "i": 0},
                {"op": "new", "c": a, "a": [], "k": 3, "i": 0},
                {"op": "new", "c": a, "a": [], "k": 6, "i": 0},
                {"op": "new", "c": a, "a": [], "k": 7, "i": 0},
                {"op": "new", "c": a, "a": [], "k": 12, "i": 0},
                {"op": "new", "c": a, "a": [], "k": 13, "i": 0},
                {"op": "check", "c": a, "a": [], "k": 12, "i": 0},
                {"op": "new", "c": a, "a": [v1], "k": 14, "i": 0},
                {"op": "new", "c": a, "a": [v1], "k": 15, "i": 0},
                {"op": "new", "c": b, "a": [], "k": 16, "i": 0},
                {"op": "new", "c": b, "a": [], "k": 17, "i": 0},
                {"op": "drop", "c": a, "a": [], "k": 13, "i": 0},
            ])
        # keyword strings that differ only by Unicode normalisation form (or look-alike characters) are different keys
        out.append([{"op": "new", "c": a, "a": [], "k": kk, "i": 0} for kk in (24, 25, 26, 27, 28, 29, 24, 25)] +
                   [{"op": "check", "c": a, "a": [], "k": 25, "i": 0}, {"op": "drop", "c": a, "a": [], "k": 24, "i": 0},
                    {"op": "check", "c": a, "a": [], "k": 25, "i": 0}, {"op": "new", "c": b, "a": [35], "k": 0, "i": 0},
                    {"op": "new", "c": b, "a": [36], "k": 0, "i": 0}, {"op": "new", "c": b, "a": [35], "k": 0, "i": 0}])
        # C(1, '{"a": 1}') is not C(1, a=1); C('{"a": 1, "b": 2}') is not C(a=1, b=2); C('{}') is not C()
        out.append([
            {"op": "new", "c": a, "a": [I_ONE], "k": 1, "i": 0},
            {"op": "new", "c": a, "a": [I_ONE, I_J_A1], "k": 0, "i": 0},
            {"op": "new", "c": a, "a": [], "k": 2, "i": 0},
            {"op": "new", "c": a, "a": [I_J_A1B2], "k": 0, "i": 0},
            {"op": "new", "c": a, "a": [], "k": 0, "i": 0},
            {"op": "new", "c": a, "a": [I_J_EMPTY], "k": 0, "i": 0},
            {"op": "check", "c": a, "a": [I_ONE, I_J_A1], "k": 0, "i": 0},
            {"op": "drop", "c": a, "a": [I_ONE, I_J_A1], "k": 0, "i": 0},
            {"op": "check", "c": a, "a": [I_ONE], "k": 1, "i": 0},
            {"op": "new", "c": a, "a": [I_ONE], "k": 1, "i": 0},
            {"op": "new", "c": b, "a": [I_J_A1B2], "k": 0, "i": 0},
            {"op": "new", "c": b, "a": [], "k": 2, "i": 0},
        ])
        # C((1, 2)) is not C(1, 2), C(()) is not C(), C(((1, 2),)) is not C((1, 2)); each is itself again
        out.append([
            {"op": "new", "c": a, "a": [I_ONE, I_TWO], "k": 0, "i": 0},
            {"op": "new", "c": a, "a": [I_T12], "k": 0, "i": 0},
            {"op": "new", "c": a, "a": [], "k": 0, "i": 0},
            {"op": "new", "c": a, "a": [I_EMPTY], "k": 0, "i": 0},
            {"op": "new", "c": a, "a": [I_TT12], "k": 0, "i": 0},
            {"op": "new", "c": b, "a": [I_T12], "k": 0, "i": 0},
            {"op": "new", "c": a, "a": [0, 1], "k": 0, "i": 0},
            {"op": "new", "c": a, "a": [I_TM], "k": 0, "i": 0},
            {"op": "new", "c": a, "a": [I_T12], "k": 0, "i": 0},
            {"op": "new", "c": a, "a": [I_ONE, I_TWO], "k": 0, "i": 0},
            {"op": "check", "c": a, "a": [I_EMPTY], "k": 0, "i": 0},
            {"op": "drop", "c": a, "a": [I_T12], "k": 0, "i": 0},
            {"op": "check", "c": a, "a": [I_ONE, I_TWO], "k": 0, "i": 0},
            {"op": "new", "c": a, "a": [I_EMPTY], "k": 1, "i": 0},
            {"op": "new", "c": a, "a": [], "k": 1, "i": 0},
        ])
    # a mapping of one class KEYED BY another class object survives that other class being cleared (and vice versa)
    for a, b, ca, cb in (("KeyedA", "KeyedB", I_CLS_A, I_CLS_B), ("KeyedB", "KeyedA", I_CLS_B, I_CLS_A),
                         ("SharedA", "SharedB", I_CLS_S, I_CLS_S), ("KeyedA", "Custom", I_CLS_A, I_CLS_A)):
        out.append([
            {"op": "new", "c": b, "a": [ca], "k": 0, "i": 0},
            {"op": "new", "c": a, "a": [cb], "k": 0, "i": 0},
            {"op": "new", "c": a, "a": [ca], "k": 0, "i": 0},
            {"op": "clear", "c": a, "a": [], "k": 0, "i": 0},
            {"op": "check", "c": b, "a": [ca], "k": 0, "i": 0},
            {"op": "new", "c": b, "a": [ca], "k": 0, "i": 0},
            {"op": "check", "c": a, "a": [cb], "k": 0, "i": 0},
            {"op": "new", "c": a, "a": [ca], "k": 0, "i": 0},
            {"op": "drop", "c": b, "a": [ca], "k": 0, "i": 0},
            {"op": "check", "c": a, "a": [ca], "k": 0, "i": 0},
        ])
    return out


def floors(ctx):
    return dict(_floors(ctx), stepwise_listing_probes=10)


def _floors(ctx):
    q = ctx.tier == "quick"
    return {"evaluations": 5000 if q else 50000, "histories": 200 if q else 2000, "cache_hits": 1000 if q else 10000,
            "histories_shared_metaclass": 20, "histories_subclassing": 20, "histories_custom_hashfunc": 20,
            "histories_falsy_instances": 20, "histories_init_mutates_arguments": 20, "mass_distinct_keys": 500000}


def judge(ctx, ops):
    found, hits, ntouched = run_history(ctx, ops)
    ctx.count("histories")
    ctx.count("cache_hits", hits)
    for arr in {ARRANGEMENT[o["c"]] for o in ops}:
        ctx.count("histories_" + arr)
    if hits and ntouched >= 2:
        ctx.nontrivial(ops)
    if found and not ctx.should_shrink(found[0][0]):
        ctx.violation(found[0][0], found[0][1], {"ops": ops})
    elif found:
        mech = found[0][0]

        def fails(sub):
            f, _, _ = run_history(ctx, sub, record=False)
            return bool(f) and f[0][0] == mech

        small = ddmin(ops, fails)
        f2, _, _ = run_history(ctx, small, record=False)
        if not f2 or f2[0][0] != mech:
            small, f2 = ops, found
        ctx.violation(mech, f2[0][1] + f"; history: {[_fmt(o) for o in small]}", {"ops": small})


def _fmt(o):
    a = ", ".join(repr(VALUES[i]) for i in o["a"])
    kw = ", ".join(f"{k}={v!r}" for k, v in KWSETS[o["k"]].items())
    return f"{o['op']} {o['c']}({', '.join(x for x in (a, kw) if x)})"


def probe_keyword_named_cls(ctx):
    """A class whose constructor takes a keyword argument called `cls` (legal for any ordinary class)."""
    classes = make_classes()
    for cname in ("Own1", "SharedA", "Child"):
        r1 = oracles.outcome(classes[cname], 1, cls="x")
        r2 = oracles.outcome(classes[cname], 1, cls="x")
        ctx.evaluated()
        ctx.count("keyword_named_cls_probes")
        if r1[0] != "ok" or r2[0] != "ok" or r1[1] is not r2[1]:
            ctx.violation("construct:keyword_named_cls_rejected",
                          f"{cname}(1, cls='x') -> {r1[1].__name__ if r1[0] != 'ok' else 'ok'}: the metaclass __call__(cls, *args, "
                          f"**kwargs) cannot be given a keyword argument named cls", {"probe": "keyword_named_cls"})
            return


def probe_stepwise_listing(ctx):
    """
    A listing consumed step by step while the caller goes on using the classes (the pruning loop
    `for inst in get_all(C): drop(C, ...)`; constructing while iterating).  What counts as "the live mappings" while
    they are changing is judged permissively: the listing must not raise, must contain every instance that was live
    from the call to the last step, and nothing that was not live at some moment in between.
    """
    scenarios = [("SharedA", "construct_other_class_on_the_shared_metaclass", lambda c, inst: c["SharedB"](99)),
                 ("SharedA", "drop_own_key", lambda c, inst: singleton.drop_semi_singleton_mapping(c["SharedA"], 3)),
                 ("SharedA", "construct_own_new_key", lambda c, inst: c["SharedA"](50)),
                 ("SharedA", "clear_other_class", lambda c, inst: singleton.clear_semi_singleton(c["SharedB"])),
                 ("Own1", "prune_while_listing", lambda c, inst: singleton.drop_semi_singleton_mapping(c["Own1"], 2)),
                 ("Child", "construct_parent", lambda c, inst: c["Parent"](7)),
                 ("Own1", "drop_then_construct_same_size", lambda c, inst: (singleton.drop_semi_singleton_mapping(c["Own1"], 1), c["Own1"](60)))]
    for cname, label, act in scenarios:
        for when in (1, 2):
            classes = make_classes()
            cls = classes[cname]
            insts = [cls(i) for i in range(4)]
            classes["SharedB"](0)
            before = {id(x) for x in singleton.get_all_semi_singleton_instances(cls)}
            seen, raised = [], None
            try:
                it = iter(singleton.get_all_semi_singleton_instances(cls))
                for _ in range(when):
                    seen.append(next(it))
                act(classes, insts)
                seen.extend(it)
            except Exception as exc:  # noqa: BLE001 - which exception is the observation
                raised = type(exc).__name__
            after_objs = list(singleton.get_all_semi_singleton_instances(cls))
            after = {id(x) for x in after_objs}
            ctx.evaluated()
            ctx.count("stepwise_listing_probes")
            ctx.nontrivial(("stepwise", cname, label, when))
            case = {"probe": "stepwise_listing"}
            got = {id(x) for x in seen}
            if raised:
                ctx.violation(f"get_all:raised:{raised}:listing_consumed_stepwise", f"get_all_semi_singleton_instances({cname}) "
                              f"consumed step by step raised {raised} when the caller did '{label}' after {when} step(s)", case)
                return
            if not (before & after) <= got or not got <= (before | after) or len(seen) != len(got):
                ctx.violation("get_all:wrong_instances:listing_consumed_stepwise", f"listing of {cname} consumed step by step with "
                              f"'{label}' after {when} step(s): {len(seen)} entries ({len(got)} distinct), {len((before & after) - got)} "
                              f"always-live instances missing, {len(got - (before | after))} never-live objects reported", case)
                return
            del insts, after_objs, seen


def mass_distinct_keys(ctx, rng, n):
    """
    n different keys must yield n different instances.  The keys are 12-digit ints passed by keyword and, in a second
    class, positionally: all encodings have the same length, so only the full value tells them apart - a key that
    keeps a 32-bit (or shorter) fingerprint of its arguments collides somewhere among a few hundred thousand of them
    (birthday bound: n^2 / 2^33 expected collisions).
    """
    class ByKeyword(metaclass=singleton.semi_singleton_metaclass()):
        def __init__(self, **kw):
            self.kw = kw

    class ByPosition(metaclass=singleton.semi_singleton_metaclass()):
        def __init__(self, *a):
            self.a = a

    values = set()
    while len(values) < n:
        values.add(rng.randrange(10 ** 11, 10 ** 12))
    values = sorted(values)
    for label, make, read in (("keyword", lambda v: ByKeyword(uid=v), lambda o: o.kw["uid"]),
                              ("positional", lambda v: ByPosition(v), lambda o: o.a[0])):
        objs = [make(v) for v in values]
        ctx.evaluated(n)
        ctx.count("mass_distinct_keys", n)
        wrong = next(((v, read(o)) for v, o in zip(values, objs) if read(o) != v), None)
        if wrong or len({id(o) for o in objs}) != n:
            ctx.violation(f"construct:new_key_returned_existing:mass_distinct_keys:{label}",
                          f"{n} different 12-digit {label} arguments produced {len({id(o) for o in objs})} distinct instances"
                          + (f"; e.g. the call with {wrong[0]} returned the instance built for {wrong[1]}" if wrong else ""),
                          {"mass": n, "label": label})
    del objs


def run(ctx):
    rng = random.Random(ctx.seed * 1299709 + ctx.shard * 11 + 17)
    if ctx.shard == 0:
        probe_keyword_named_cls(ctx)
        probe_stepwise_listing(ctx)
        mass_distinct_keys(ctx, random.Random(ctx.seed + 1717), 300000 if ctx.tier == "quick" else 600000)
    quick = ctx.tier == "quick"
    pre = prelude()
    for n, ops in enumerate(pre):
        if n % ctx.nshards == ctx.shard:
            judge(ctx, ops)
    nh = ctx.n(5000 if quick else 20000)
    for n in range(nh):
        ops = gen_history(rng, rng.randint(30, 100))
        judge(ctx, ops)
        if n in (1, 50) and ctx.shard == 0:
            ctx.sample([_fmt(o) for o in ops[:25]] + ["..."])
    ctx.assumptions += [
        "default key = (args, json.dumps(kwargs, sort_keys=True)) compared with ==; custom hashfunc value otherwise",
        "get_all is compared as a set of identities; dropping an absent mapping may raise but must change nothing",
        "no re-entrant construction from __init__",
    ]


def replay(ctx, case):
    if case.get("mass"):
        mass_distinct_keys(ctx, random.Random(ctx.seed + 1717), case["mass"])
        ctx.nontrivial("replay-a")
        ctx.nontrivial("replay-b")
        return
    if case.get("probe") == "stepwise_listing":
        probe_stepwise_listing(ctx)
        ctx.nontrivial("replay-a")
        ctx.nontrivial("replay-b")
        return
    if case.get("probe") == "keyword_named_cls":
        probe_keyword_named_cls(ctx)
        ctx.nontrivial("replay-a")
        ctx.nontrivial("replay-b")
        return
    judge(ctx, case["ops"])
    ctx.nontrivial("replay-a")
    ctx.nontrivial("replay-b")
