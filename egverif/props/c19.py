"""
C19 -- a universe and its laws always point at each other, after any (re)assignments.
"""

from __future__ import annotations

import collections
import random
import types

from edgegraph.structure import DirectedEdge, Link, UnDirectedEdge, Universe, Vertex
from edgegraph.structure.universe import UniverseLaws
from edgegraph.traversal import helpers

from egverif import histories, oracles
from egverif.props import c01

RULE = (
    "cases = histories of assignments to Universe.laws and UniverseLaws.applies_to (to another object or None, from "
    "either side), Universe(laws=fresh|already bound|None) and UniverseLaws() over 1-3 universes (with members, other universes and themselves "
    "among them) and 1-4 law sets.  "
    "Part 1: from 2 base states every op with every argument to depth 3 (4 in thorough); part 2: random histories of "
    "40-120 ops.  After every op: model-free bijection u.laws is L <=> L.applies_to is u over everything reachable, "
    "the assignment must not raise and must take effect, and only the two previous partners may be detached "
    "(lock-step model).  Part 3: rule attributes read back == constructor arguments, cannot be assigned, and the "
    "whitelist is isolated from the dict passed in.  Non-trivial = history re-assigning a law set in use elsewhere or "
    "assigning after None; distinct = distinct op sequences."
)
CHECKS = {"C19"}

FLOOR_KEYS = ["op:set_laws:u_laws_None:new_free", "op:set_laws:u_laws_None:new_bound_elsewhere",
              "op:set_laws:u_has_laws:new_bound_elsewhere", "op:set_laws:u_has_laws:new=None",
              "op:set_laws:u_has_laws:new=current", "op:set_applies:w_bound:u_has_other_laws",
              "op:set_applies:w_bound:new=None", "op:set_applies:w_free:u_laws_None",
              "op:set_applies:w_bound:u_laws_None", "op:mku:empty:laws_bound_elsewhere", "op:mku:empty:laws_free"]


def floors(ctx):
    f = {"evaluations": 20000 if ctx.tier == "quick" else 200000, "histories": 1000, "rule_attribute_checks": 100, "whitelists_passed_as_proxy": 10, "whitelists_with_rows_of_other_mapping_types": 10, "whitelists_with_related_key_classes": 5, "bindings_on_universes_with_non_vertex_members": 40, "bursts": 500,
         "law_sets_built_with_positional_arguments": 100}
    for k in FLOOR_KEYS:
        f[k] = 1
    return f


def nontrivial_ops(before, after):
    keys = ("bound_elsewhere", "u_laws_None:new_", "u_has_other_laws", "w_bound:new=None")
    return any(v > before.get(k, 0) and any(x in k for x in keys) for k, v in after.items())


class _Fallback(dict):
    """A row type with a fallback answer for unlisted vertex classes (and, like defaultdict, it remembers it)."""

    def __missing__(self, key):
        self[key] = UnDirectedEdge
        return UnDirectedEdge


def rule_attributes(ctx, rng):
    """Rule attributes read back what was passed, are read-only, and are isolated from the caller's dict."""
    for n in range(240):
        vals = dict(mixed_links=rng.random() < 0.5, cycles=rng.random() < 0.5, multipath=rng.random() < 0.5,
                    multiverse=rng.random() < 0.5)
        wl = None
        if n % 3:
            wl = {Vertex: {Vertex: DirectedEdge}, Universe: {Vertex: UnDirectedEdge, Universe: DirectedEdge}}
            if n % 3 == 2:
                wl = {}
            elif n % 9 == 4:
                # key classes related by subclassing (Universe is a Vertex, everything is an object): each row reads
                # back as the row that was passed for exactly that key
                wl = {Vertex: {Vertex: DirectedEdge, Universe: DirectedEdge}, Universe: {Vertex: UnDirectedEdge},
                      object: {object: DirectedEdge, Vertex: UnDirectedEdge}, _Fallback: {Vertex: DirectedEdge}}
                ctx.count("whitelists_with_related_key_classes")
            # the rows may be any mapping the caller happens to have: a defaultdict (missing keys answer with a
            # default AND are inserted), an OrderedDict, a dict subclass with __missing__
            rowkind = (n // 3) % 4
            if wl and rowkind:
                mk = {1: lambda d: collections.defaultdict(lambda: DirectedEdge, d), 2: collections.OrderedDict,
                      3: _Fallback}[rowkind]
                wl = {k: mk(v) for k, v in wl.items()}
                ctx.count("whitelists_with_rows_of_other_mapping_types")
        expect_wl = None if wl is None else {k: dict(v) for k, v in wl.items()}
        given = wl
        if wl is not None and n % 4 == 1:
            # a read-only VIEW of somebody's dict is still a live view: it must be copied like any mapping
            given = types.MappingProxyType(wl)
            ctx.count("whitelists_passed_as_proxy")
        # the documented parameter order is (edge_whitelist, mixed_links, cycles, multipath, multiverse, applies_to):
        # pass the first npos of them positionally, the rest by keyword
        order = ["mixed_links", "cycles", "multipath", "multiverse"]
        npos = (n // 2) % 6  # 0 = all by keyword, 1 = whitelist only, ... 5 = all five positional
        if npos == 0:
            laws = UniverseLaws(edge_whitelist=given, **vals)
        else:
            pos = [given] + [vals[k] for k in order[: npos - 1]]
            built = oracles.outcome(UniverseLaws, *pos, **{k: vals[k] for k in order[npos - 1:]})
            ctx.count("law_sets_built_with_positional_arguments")
            if built[0] != "ok":
                ctx.evaluated()
                ctx.violation(f"rule_attr:construct_raised:{built[1].__name__}:passed_positionally",
                              f"UniverseLaws with its first {npos} documented parameters passed positionally raised "
                              f"{built[1].__name__}", {"rule_attrs": True, "n": n, "vals": vals, "positional": npos})
                continue
            laws = built[1]
        ctx.count("rule_attribute_checks")
        ctx.evaluated()
        case = {"rule_attrs": True, "n": n, "vals": vals, "positional": npos}

        def read_wl():
            got = laws.edge_whitelist
            return None if got is None else {k: dict(v) for k, v in got.items()}

        for k, v in vals.items():
            if getattr(laws, k) != v:
                ctx.violation(f"rule_attr:readback:{k}" + (":passed_positionally" if npos and order.index(k) < npos - 1 else ""),
                              f"UniverseLaws({k}={v}).{k} reads {getattr(laws, k)!r} ({npos} leading arguments passed positionally)", case)
            r = oracles.outcome(setattr, laws, k, not v)
            if not (r[0] == "exc" and r[1] is AttributeError) or getattr(laws, k) != v:
                ctx.violation(f"rule_attr:assignable:{k}", f"assigning laws.{k} did not raise AttributeError / changed it", case)
        if read_wl() != expect_wl:
            ctx.violation("rule_attr:readback:edge_whitelist", f"edge_whitelist reads {read_wl()}, passed {expect_wl}", case)
        r = oracles.outcome(setattr, laws, "edge_whitelist", {})
        if not (r[0] == "exc" and r[1] is AttributeError):
            ctx.violation("rule_attr:assignable:edge_whitelist", "assigning laws.edge_whitelist did not raise AttributeError", case)
        if wl:
            # plain LOOK-UPS through what the accessor returns - present and absent keys at both levels, every
            # reading spelling - are reads: whatever they answer or raise, the rules stay as constructed
            got = laws.edge_whitelist
            for look in (lambda: got[Vertex][Universe], lambda: got[DirectedEdge], lambda: got[Universe][DirectedEdge],
                         lambda: got[Vertex][Vertex], lambda: got.get(Link), lambda: got[Vertex].get(Link),
                         lambda: Link in got[Vertex], lambda: list(got[Universe].items()), lambda: len(got[Vertex]),
                         lambda: got[Universe][Link], lambda: dict(got[Vertex])):
                oracles.outcome(look)
            if read_wl() != expect_wl:
                ctx.violation("rule_attr:lookup_changed_the_rules", "looking keys up in the returned edge_whitelist changed the "
                              f"laws: now {read_wl()}, constructed with {expect_wl}", case)
            got = laws.edge_whitelist
            for mut in (lambda: got.__setitem__(Vertex, {}), lambda: got[Vertex].__setitem__(Universe, DirectedEdge),
                        lambda: got.pop(Vertex), lambda: got[Universe].clear()):
                r = oracles.outcome(mut)
                if r[0] != "exc":
                    ctx.violation("rule_attr:returned_whitelist_mutable", "the returned edge_whitelist accepted a mutation", case)
            if read_wl() != expect_wl:
                ctx.violation("rule_attr:returned_whitelist_aliases_state", "mutating the returned whitelist changed the laws", case)
            # mutate what was passed in, at both levels
            wl[Vertex][Universe] = UnDirectedEdge
            if read_wl() != expect_wl:
                ctx.violation("rule_attr:input_dict_aliased:inner", "mutating the inner dict passed as edge_whitelist changed "
                              f"the laws: now {read_wl()}", case)
            wl[DirectedEdge] = {}
            wl.pop(Universe, None)
            if read_wl() != expect_wl and not ctx.has_violation("rule_attr:input_dict_aliased:inner"):
                ctx.violation("rule_attr:input_dict_aliased:outer", "mutating the dict passed as edge_whitelist changed "
                              f"the laws: now {read_wl()}", case)
        if wl is not None and not wl:
            # an EMPTY mapping passed in is a whitelist like any other: it must be copied too
            wl[Vertex] = {Vertex: DirectedEdge}
            if read_wl() != expect_wl:
                ctx.violation("rule_attr:input_dict_aliased:empty_mapping", "UniverseLaws(edge_whitelist={}) keeps the caller's "
                              f"empty dict: after the caller filled it the laws read {read_wl()}", case)
        ctx.nontrivial(("attrs", n, str(vals), str(expect_wl)))


def probe_non_vertex_members(ctx):
    """
    Universes whose members include objects that are not vertices (a link and a law set filed with add_vertex - the
    class accepts any BaseObject), with the program-wide caching switch off and on: every route of (re)binding a law
    set succeeds and leaves the binding mutual.  The members play no part in the binding.
    """
    from edgegraph.structure.base import BaseObject

    routes = {
        "u.laws = L2": lambda u, u2, l, l2: setattr(u, "laws", l2),
        "L.applies_to = u2": lambda u, u2, l, l2: setattr(l, "applies_to", u2),
        "u2.laws = L": lambda u, u2, l, l2: setattr(u2, "laws", l),
        "Universe(laws=L)": lambda u, u2, l, l2: Universe(laws=l),
        "u.laws = None": lambda u, u2, l, l2: setattr(u, "laws", None),
        "L.applies_to = None": lambda u, u2, l, l2: setattr(l, "applies_to", None),
        "L2.applies_to = u": lambda u, u2, l, l2: setattr(l2, "applies_to", u),
    }
    for cache in (False, True):
        for label, act in routes.items():
            for members in ("link", "laws", "bare", "link+vertex"):
                Vertex.NEIGHBOR_CACHING = cache
                try:
                    a, b = Vertex(), Vertex()
                    e = DirectedEdge(a, b)
                    u = Universe(vertices=[a] if "vertex" in members else [])
                    extra = e if "link" in members else UniverseLaws() if members == "laws" else BaseObject()
                    if oracles.outcome(u.add_vertex, extra)[0] != "ok":
                        ctx.count("non_vertex_member_refused")
                        continue
                    for x in (a, b):
                        oracles.outcome(helpers.neighbors, x)
                    l, u2, l2 = u.laws, Universe(), UniverseLaws()
                    pool_u, pool_l = [u, u2], [l, l2, u2.laws]
                    res = oracles.outcome(act, u, u2, l, l2)
                    if res[0] == "ok" and isinstance(res[1], Universe):
                        pool_u.append(res[1])
                    ctx.evaluated()
                    ctx.count("bindings_on_universes_with_non_vertex_members")
                    ctx.nontrivial(("nvm", cache, label, members))
                    case = {"non_vertex_members": True}
                    if res[0] != "ok":
                        ctx.violation(f"assignment_raised:{res[1].__name__}:universe_with_non_vertex_member",
                                      f"{label} raised {res[1].__name__} (caching={cache}; the universe holds a {type(extra).__name__})", case)
                        return
                    for uu in pool_u:
                        for ll in [x for x in pool_l if x is not None] + [uu.laws]:
                            if ll is not None and ((uu.laws is ll) != (ll.applies_to is uu)):
                                ctx.violation("binding_not_mutual:universe_with_non_vertex_member",
                                              f"after {label} (caching={cache}): universe.laws is L = {uu.laws is ll} but "
                                              f"L.applies_to is universe = {ll.applies_to is uu}", case)
                                return
                finally:
                    Vertex.NEIGHBOR_CACHING = False


def run(ctx):
    quick = ctx.tier == "quick"
    c01.run(ctx, profile="C19", checks=CHECKS, strict=False, depth=3 if quick else 4,
            nrand=2000 if quick else 8000, nontrivial=nontrivial_ops)
    rule_attributes(ctx, random.Random(ctx.seed + 19))
    probe_non_vertex_members(ctx)
    ctx.assumptions[:] = ["law sets are constructed without applies_to (the property lists assignments and universe "
                          "constructions only)", "bijection evaluated at client-call boundaries over everything reachable"]


def replay(ctx, case):
    if case.get("non_vertex_members"):
        probe_non_vertex_members(ctx)
    elif case.get("rule_attrs"):
        rule_attributes(ctx, random.Random(ctx.seed + 19))
    else:
        eng = histories.replay(case["ops"], CHECKS, False)
        ctx.evaluated(max(1, eng.evals))
        if eng.findings:
            histories.report(ctx, eng, CHECKS, False)
    ctx.nontrivial("replay-a")
    ctx.nontrivial("replay-b")
