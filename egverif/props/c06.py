"""
C06 -- every traversal visits exactly the reachable in-universe vertices, once each.
"""

from __future__ import annotations

import random

from egverif import graphs, oracles, trav

RULE = (
    "cases = (graph spec, universe or None, start, direction, unknown mode, ff_via, ff_result, caching flag); "
    "all digraphs on 3 vertices (4 in thorough) x start x direction exhaustively, all D/U multigraph placements on 2 "
    "vertices, shape families (chains, cycles, stars, ladders, diamonds, trees, cut universes), random mixed "
    "multigraphs.  For each case bft/dft_recursive/dft_iterative and their generator forms are run on the real code "
    "under an expansion bound and compared with an independent closure over the real neighbors().  Non-trivial = "
    "more than one vertex reachable; distinct = distinct (graph shape, start, direction, unknown, ff_via)."
)
WANT = {"C06"}


def floors(ctx):
    f = {"evaluations": 3000 if ctx.tier == "quick" else 30000,
         "graphs_with_selfloop": 1, "graphs_with_parallel": 1, "graphs_with_mixed_kinds": 1,
         "graphs_with_bridge_out_of_universe": 1, "graphs_with_former_members": 20, "graphs_with_former_links": 20, "graphs_with_links_filed_under_universes": 20, "ff_result_removed_something": 20,
         "cases_partial_reach": 50, "cases_expect_notimplemented": 5,
         "cases_retraversed_after_in_place_edit": 100, "interleaved_generator_pairs": 1000 if "C06" in WANT else 0}
    for d in oracles.DIR_NAMES:
        for u in oracles.UNKS:
            for un in ("uni", "nouni"):
                f[f"cell_{d}_{u}_{un}"] = 15
    return f


def run(ctx, want=WANT, scale=1):
    rng = random.Random(ctx.seed * 7919 + ctx.shard * 104729 + 6)
    quick = ctx.tier == "quick"
    with oracles.NeighborCounter() as nc:
        stream = trav.case_stream(
            ctx, rng,
            n_random=ctx.n((3000 if quick else 12000) * scale),
            nmax=8 if quick else 14, mmax=14 if quick else 30,
            exhaustive_n=3 if quick else 4,
            big=() if quick else (40, 120, 300),
        )
        seen_specs = 0
        for spec, si, dname, uname, vname, rname, cache in stream:
            for f in graphs.features(spec):
                ctx.count("graphs_with_" + f)
            ctx.count(f"cell_{dname}_{uname}_{'uni' if spec.get('uni') is not None else 'nouni'}")
            trav.run_case(ctx, nc, spec, si, dname, uname, vname, rname, cache, want)
            if seen_specs % 5 == 0 and len(spec["verts"]) <= 40:
                # traverse, edit the same objects in place keeping every size, traverse again
                nv, ne = len(spec["verts"]), len(spec["edges"])
                muts = []
                if spec.get("uni") is not None:
                    ins = [i for i in range(nv) if i not in spec["uni"]]
                    outs = [i for i in spec["uni"] if i != si]
                    if ins and outs:
                        muts.append(["uni_swap", rng.choice(outs), rng.choice(ins)])
                if ne and rng.random() < 0.6:
                    muts.append(["repoint", rng.randrange(ne), rng.randrange(nv)])
                if ne and rng.random() < 0.4:
                    muts.append(["relink", rng.randrange(ne)])
                if muts:
                    trav.run_case(ctx, nc, spec, si, dname, uname, vname, rname, cache, want, then=muts)
            seen_specs += 1
            if seen_specs in (5, 900, 2500) and ctx.shard == 0:
                ctx.sample({"spec": spec, "start": si, "dir": dname, "unk": uname, "via": vname, "res": rname, "cache": cache})
    ctx.assumptions += [
        "start is a member of the universe (or universe is None)",
        "'followed' is defined by the real neighbors() under the same settings (C04 pins neighbors itself)",
        "filters are pure; dft_recursive not driven past the interpreter recursion limit",
        "non-termination decided by an expansion bound of 20(|V|+|E|)+200 neighbors() calls",
    ]


def replay(ctx, case):
    with oracles.NeighborCounter() as nc:
        trav.run_case(ctx, nc, case["spec"], case["start"], case["dir"], case["unk"], case["via"], case["res"],
                      case["cache"], WANT, then=case.get("then"))
    ctx.nontrivial("replay-a")
    ctx.nontrivial("replay-b")
