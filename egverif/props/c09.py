"""
C09 -- find_links returns exactly the links neighbors() would follow from a to b.
"""

from __future__ import annotations

import itertools
import random

from edgegraph.builder import explicit
from edgegraph.structure import Vertex
from edgegraph.traversal import helpers

from egverif import graphs, oracles, zoo
from egverif.common import ddmin
from egverif.oracles import UNKS
from egverif.props.c04 import _Quiet

RULE = (
    "cases = (graph spec, ordered pair (a,b) incl. a is b, direction flag, unknown mode, filter); "
    "part 1 enumerates all one-link and two-link configurations between two vertices for 8 link classes; "
    "part 2 random multigraphs; every case is checked against the decision table, against "
    "neighbors(a).count(b), and (part 3) after explicit.unlink(a,b).  Non-trivial = at least one link "
    "joins a and b; distinct = distinct (joining link kinds/orientations, flag, unknown, filter verdicts)."
)


def floors(ctx):
    if ctx.tier == "quick":
        return {"rows_single_link": 400, "evaluations": 5000, "unlink_sweeps": 200, "count_relation_checked": 2000,
                "pairs_checked_with_warm_cache": 2000, "unlink_sweeps_with_warm_cache": 50,
                "returned_sets_mutated_by_the_caller": 2000, "graphs_with_ends_filled_under_warm_cache": 10,
                "graphs_whose_links_carry_flag_like_attributes": 20}
    return {"rows_single_link": 400, "evaluations": 50000, "unlink_sweeps": 2000, "count_relation_checked": 20000,
            "pairs_checked_with_warm_cache": 20000, "unlink_sweeps_with_warm_cache": 500,
            "returned_sets_mutated_by_the_caller": 20000, "graphs_with_ends_filled_under_warm_cache": 100}


def _nb_filter(g1):
    if g1 is None:
        return None

    def f(e, _v):
        return g1(e)

    return f


def _cat(fname, filt, link):
    if filt is None:
        return "none"
    if fname in ("accept", "reject"):
        return fname
    return "sel+" if filt(link) else "sel-"


def _joining(a, b):
    out = []
    for l in a.links:
        x, y = l.vertices
        if (a is b and x is a and y is a) or (a is not b and ((x is a and y is b) or (x is b and y is a))):
            out.append(l)
    return out


def warm(g):
    """Fill the neighbor cache of every vertex for every (direction, unknown) setting (caching must be on)."""
    for v in g.verts:
        for d in (oracles.FORWARD, oracles.ANY, oracles.BACKWARD):
            for u in UNKS.values():
                oracles.outcome(helpers.neighbors, v, d, u, None)


def check_pair(ctx, g, ai, bi, ds, uname, fname, rows=None, _shrinking=False, case_extra=None):
    if case_extra:
        class _Tagged:
            """Adds the edit script to every recorded case (a replay must redo the edits)."""

            def __getattr__(self, name):
                return getattr(ctx, name)

            def violation(self, mech, what, case):
                ctx.violation(mech + ":ends_filled_under_warm_cache", what, dict(case, **case_extra))

        return check_pair(_Tagged(), g, ai, bi, ds, uname, fname, rows, True, None)
    a, b = g.verts[ai], g.verts[bi]
    u = UNKS[uname]
    filt = zoo.FL_FILTERS[fname]
    got = oracles.outcome(helpers.find_links, a, b, ds, u, filt)
    if Vertex.NEIGHBOR_CACHING:
        ctx.count("pairs_checked_with_warm_cache")
    exp = oracles.table_find_links(a, b, ds, u, filt)
    ctx.evaluated()
    joining = _joining(a, b)
    sig = sorted(
        (zoo.kind_of(l), "self" if ai == bi else ("fwd" if l.v1 is a else "rev"), _cat(fname, filt, l))
        for l in joining
    )
    if joining:
        ctx.nontrivial(("pair", tuple(sig), ds, uname))
    if rows is not None and len(joining) == 1:
        key = (type(joining[0]).__name__, sig[0][1], ds, uname, fname)
        if key not in rows:
            rows.add(key)
            ctx.count("rows_single_link")
    ok = oracles.matches_set(exp, got)
    if ok and got[0] == "ok" and not isinstance(got[1], set):
        ok = False
    if not ok and not _shrinking and len(g.spec["edges"]) > 1:
        def fails(edges):
            sub = dict(g.spec, edges=edges)
            return not check_pair(_Quiet(), graphs.build(sub), ai, bi, ds, uname, fname, _shrinking=True)

        small = ddmin(list(g.spec["edges"]), fails)
        if fails(small):
            return check_pair(ctx, graphs.build(dict(g.spec, edges=small)), ai, bi, ds, uname, fname, _shrinking=True)
    if not ok:
        kinds = "+".join(sorted({f"{k}@{o}/{fc}" if k == "D" else f"{k}/{fc}" for k, o, fc in sig})) or "nolink"
        ctx.violation(
            f"table:{'sens' if ds else 'insens'}:{uname}:{kinds}",
            f"find_links(v{ai}, v{bi}, direction_sensitive={ds}, {uname}, filter={fname}) returned "
            f"{_show(g, got)}; decision table expects {_show(g, exp)}; links at v{ai}: "
            f"{[(type(l).__name__, g.names(l.vertices)) for l in a.links]}",
            {"kind": "pair", "spec": g.spec, "a": ai, "b": bi, "ds": ds, "unk": uname, "filt": fname},
        )
        return False
    # relation with neighbors() on the real outputs
    if got[0] == "ok":
        d = oracles.FORWARD if ds else oracles.ANY
        nb = oracles.outcome(helpers.neighbors, a, d, u, _nb_filter(filt))
        if nb[0] == "ok":
            ctx.count("count_relation_checked")
            k = sum(1 for x in nb[1] if x is b)
            if k:
                ctx.count("count_relation_nonzero")
            if k != len(got[1]):
                if not _shrinking and len(g.spec["edges"]) > 1:
                    def fails2(edges):
                        sub = dict(g.spec, edges=edges)
                        return not check_pair(_Quiet(), graphs.build(sub), ai, bi, ds, uname, fname, _shrinking=True)

                    small = ddmin(list(g.spec["edges"]), fails2)
                    if fails2(small):
                        return check_pair(ctx, graphs.build(dict(g.spec, edges=small)), ai, bi, ds, uname, fname, _shrinking=True)
                kinds = "+".join(sorted({f"{k_}/{fc}" for k_, o, fc in sig})) or "nolink"
                ctx.violation(
                    f"count:{'sens' if ds else 'insens'}:{uname}:{kinds}",
                    f"len(find_links(v{ai}, v{bi}, {ds}, {uname}, {fname})) = {len(got[1])} but v{bi} occurs {k}x in "
                    f"neighbors(v{ai}, {'FORWARD' if ds else 'ANY'}, {uname}, same filter)",
                    {"kind": "pair", "spec": g.spec, "a": ai, "b": bi, "ds": ds, "unk": uname, "filt": fname},
                )
                return False
    if got[0] == "ok" and isinstance(got[1], set) and not _shrinking:
        # the result belongs to the caller, who goes on to use it (acc = find_links(d, b); acc |= find_links(a, b)):
        # every later answer must be computed afresh, whatever became of this set
        got[1].update(l for v in g.verts for l in v.links)
        got[1].add("not a link")
        ctx.count("returned_sets_mutated_by_the_caller")
    return True


def tag_links_with_flag_like_attributes(g):
    """
    Links are dynamic attribute namespaces: the user's own data may use any name, including names that sound like
    something a link class might know about itself - and say the opposite of what the class is.  What a link IS is
    decided by its class.
    """
    for e in g.edges:
        if e is None:
            continue
        is_d = isinstance(e, zoo.DirectedEdge)
        for name, val in (("directed", not is_d), ("undirected", is_d), ("is_directed", not is_d), ("kind", "U" if is_d else "D"),
                          ("bidirectional", is_d), ("unknown", True), ("two_ended", False), ("oriented", not is_d)):
            oracles.outcome(setattr, e, name, val)


def completed_case(ctx, spec, edits):
    """
    Edges that had an open end while the neighbor caches were filled, and were completed through the v1 / v2 setters
    afterwards (caching on): find_links and neighbors() must agree on the graph as it is now.
    edits: [edge index, end (0/1), vertex index the end is finally assigned].
    """
    Vertex.NEIGHBOR_CACHING = True
    try:
        g = graphs.build(spec)
        todo = []
        for k, end, target in edits:
            e = g.edges[k] if k < len(g.edges) else None
            if e is None or not isinstance(e, zoo.TwoEndedLink) or target >= len(g.verts):
                continue
            if oracles.outcome(setattr, e, "v1" if end == 0 else "v2", None)[0] == "ok":
                todo.append((e, end, target))
        if not todo:
            return
        warm(g)
        for e, end, target in todo:
            oracles.outcome(setattr, e, "v1" if end == 0 else "v2", g.verts[target])
        if any(len(e.vertices) != 2 for e in g.edges if e is not None):
            return  # (an end stayed open: outside the domain of complete two-ended links)
        ctx.count("graphs_with_ends_filled_under_warm_cache")
        nv = len(g.verts)
        for ai in range(nv):
            for bi in range(nv):
                for ds, un, fn in ALL_SETTINGS:
                    check_pair(ctx, g, ai, bi, ds, un, fn, case_extra={"edits": edits})
    finally:
        Vertex.NEIGHBOR_CACHING = False


def _show(g, res):
    if isinstance(res, oracles.Raises):
        return f"Raises({res.exc.__name__})" + (f" or {sorted(g.names(res.alt))}" if res.has_alt else "")
    if isinstance(res, tuple):
        if res[0] == "exc":
            return f"raised {res[1].__name__}"
        try:
            return sorted(map(str, g.names(res[1])))
        except TypeError:
            return repr(res[1])
    return sorted(g.names(res))


ALL_SETTINGS = [(ds, un, fn) for ds in (True, False) for un in UNKS for fn in zoo.FL_FILTERS]


def unlink_sweep(ctx, spec, ai, bi, destroy, cache=False):
    """After unlink(a,b): empty for every setting, both argument orders; other pairs unchanged."""
    Vertex.NEIGHBOR_CACHING = bool(cache)
    try:
        _unlink_sweep(ctx, spec, ai, bi, destroy, cache)
    finally:
        Vertex.NEIGHBOR_CACHING = False


def _unlink_sweep(ctx, spec, ai, bi, destroy, cache):
    g = graphs.build(spec)
    if cache:
        warm(g)
        ctx.count("unlink_sweeps_with_warm_cache")
    a, b = g.verts[ai], g.verts[bi]
    n = len(g.verts)
    before = {}
    for i in range(n):
        for j in range(n):
            if {i, j} == {ai, bi}:
                continue
            r = oracles.outcome(helpers.find_links, g.verts[i], g.verts[j], False, oracles.NEIGHBOR, None)
            before[(i, j)] = r
    joining = _joining(a, b)
    res = oracles.outcome(explicit.unlink, a, b, destroy)
    ctx.count("unlink_sweeps")
    ctx.evaluated()
    if joining:
        ctx.nontrivial(("unlink", tuple(sorted(zoo.kind_of(l) for l in joining)), ai == bi, destroy))
    case = {"kind": "unlink", "spec": spec, "a": ai, "b": bi, "destroy": destroy, "cache": bool(cache)}
    if res[0] != "ok":
        ctx.violation("unlink:raised", f"explicit.unlink(v{ai}, v{bi}, destroy={destroy}) raised {res[1].__name__}", case)
        return
    if not destroy and not oracles.same_identity_set(list(res[1]), joining):
        ctx.violation("unlink:return", f"unlink(v{ai},v{bi},destroy=False) returned {sorted(map(str, g.names(res[1])))}, "
                      f"joining links were {sorted(g.names(joining))}", case)
    for (x, y) in ((a, b), (b, a)):
        for ds, un, fn in ALL_SETTINGS:
            r = oracles.outcome(helpers.find_links, x, y, ds, UNKS[un], zoo.FL_FILTERS[fn])
            ctx.evaluated()
            if r[0] != "ok" or len(r[1]) != 0:
                ctx.violation(
                    f"unlink:not_empty:{'sens' if ds else 'insens'}:{un}",
                    f"after unlink(v{ai}, v{bi}) find_links({g.name(x)}, {g.name(y)}, {ds}, {un}, {fn}) = {_show(g, r)}",
                    case,
                )
                return
    for (i, j), r0 in before.items():
        r1 = oracles.outcome(helpers.find_links, g.verts[i], g.verts[j], False, oracles.NEIGHBOR, None)
        same = r0[0] == r1[0] and (r0[0] != "ok" or oracles.same_identity_set(list(r0[1]), list(r1[1])))
        if not same:
            ctx.violation(
                "unlink:other_pair_changed",
                f"unlink(v{ai}, v{bi}) changed find_links(v{i}, v{j}): {_show(g, r0)} -> {_show(g, r1)}",
                case,
            )
            return


def small_specs():
    classes = list(graphs._ECLS)
    placements = [(0, 1), (1, 0), (0, 0)]
    for c in classes:
        for p in placements:
            for tag in (0, 1):
                yield {"verts": ["Vertex", "VSub", "Vertex"], "edges": [[c, p[0], p[1], tag]], "uni": None}
    for c1, c2 in itertools.product(classes, repeat=2):
        for p1, p2 in itertools.product(placements, repeat=2):
            yield {"verts": ["Vertex", "VSub", "Vertex"],
                   "edges": [[c1, p1[0], p1[1], 0], [c2, p2[0], p2[1], 1]], "uni": None}


def run(ctx):
    rng = random.Random(ctx.seed * 1000003 + ctx.shard + 17)
    rows = set()
    for n, spec in enumerate(small_specs()):
        if n % ctx.nshards != ctx.shard:
            continue
        g = graphs.build(spec)
        for cache in (False, True):
            Vertex.NEIGHBOR_CACHING = cache
            try:
                if cache:
                    warm(g)
                for ai, bi in ((0, 1), (1, 0), (0, 0), (0, 2)):
                    for ds, un, fn in ALL_SETTINGS:
                        check_pair(ctx, g, ai, bi, ds, un, fn, rows=rows if not cache else None)
            finally:
                Vertex.NEIGHBOR_CACHING = False
        if n % 7 == 0:
            for (ai, bi) in ((0, 1), (0, 0), (1, 0)):
                unlink_sweep(ctx, spec, ai, bi, destroy=bool(n % 2), cache=bool(n % 3))
    ngraphs = ctx.n(150 if ctx.tier == "quick" else 1500)
    for n in range(ngraphs):
        spec = graphs.rand_spec(rng, nmax=5, mmax=10, uni_mode="none", self_p=0.2, ecls=graphs.ECLS_X)
        g = graphs.build(spec)
        if n % 3 == 0:
            tag_links_with_flag_like_attributes(g)
            ctx.count("graphs_whose_links_carry_flag_like_attributes")
        if n < 2:
            ctx.sample({"spec": spec, "checked": "all ordered pairs x 2 flags x 3 unknown modes x 5 filters; then unlink sweeps"})
        nv = len(g.verts)
        Vertex.NEIGHBOR_CACHING = bool(n % 2)
        try:
            if n % 2:
                warm(g)
            for ai in range(nv):
                for bi in range(nv):
                    for ds, un, fn in ALL_SETTINGS:
                        check_pair(ctx, g, ai, bi, ds, un, fn)
        finally:
            Vertex.NEIGHBOR_CACHING = False
        for _ in range(3):
            ai, bi = rng.randrange(nv), rng.randrange(nv)
            if spec["edges"] and rng.random() < 0.7:
                e = rng.choice(spec["edges"])
                ai, bi = (e[1], e[2]) if rng.random() < 0.5 else (e[2], e[1])
            unlink_sweep(ctx, spec, ai, bi, destroy=rng.random() < 0.5, cache=rng.random() < 0.5)
    for n in range(ctx.n(60 if ctx.tier == "quick" else 400)):
        spec = graphs.rand_spec(rng, nmax=4, mmax=6, uni_mode="none", self_p=0.2, ecls=graphs.ECLS_ALL)
        for key in ("half", "edges_gone", "extra"):
            spec.pop(key, None)
        if not spec["edges"]:
            continue
        edits = [[rng.randrange(len(spec["edges"])), rng.randrange(2), rng.randrange(len(spec["verts"]))]
                 for _ in range(rng.randint(1, 2))]
        # (mostly back to the vertex that was there before: the graph ends as it was born)
        for ed in edits:
            if rng.random() < 0.6:
                ed[2] = spec["edges"][ed[0]][1 + ed[1]]
        completed_case(ctx, spec, edits)
    ctx.assumptions += [
        "filters are pure; only complete two-ended links",
        "under LNK_UNKNOWN_ERROR with a filter rejecting every unknown joining link, NotImplementedError or the filtered set are both accepted",
    ]


def replay(ctx, case):
    if case.get("edits"):
        completed_case(ctx, case["spec"], case["edits"])
        ctx.nontrivial("replay-a")
        return
    if case["kind"] == "pair":
        for cache in (False, True):
            Vertex.NEIGHBOR_CACHING = cache
            try:
                g = graphs.build(case["spec"])
                if cache:
                    warm(g)
                check_pair(ctx, g, case["a"], case["b"], case["ds"], case["unk"], case["filt"])
            finally:
                Vertex.NEIGHBOR_CACHING = False
    else:
        unlink_sweep(ctx, case["spec"], case["a"], case["b"], case["destroy"], case.get("cache", False))
    ctx.nontrivial("replay-a")
    ctx.nontrivial("replay-b")
