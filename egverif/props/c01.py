"""
C01 -- vertex-link association is symmetric and duplicate-free after every history.
"""

from __future__ import annotations

import collections
import random

from egverif import histories

RULE = (
    "cases = call histories over the public construction/mutation API (edge constructors of 8 classes, n-ended links, "
    "Vertex(links=), v1/v2 assignment incl. None, add_to_link/remove_from_link, add_vertex/unlink_from, "
    "explicit.link_*/unlink, ill-typed constructor arguments) on pools of 3-5 vertices and <=9 links.  Part 1: from 9 "
    "base states (plain edge, self-loop, half-assigned edge, parallel, antiparallel mixed, fan, edge with extra vertex, "
    "multi-listing link, edge that lost an end) every op with every argument choice, to depth 2 (3 in thorough); part 2: "
    "random histories of 40-120 ops biased towards objects adjacent to the previous op.  The model-free invariant (l in "
    "v.links <=> v in l.vertices, no duplicate) is evaluated after every op, raised or not, over everything reachable "
    "from the pool.  Non-trivial = history containing an aliased op (new end equal to old/other end, self-loop, "
    "multiply listed vertex, degenerate edge, raising op); distinct = distinct op sequences."
)
CHECKS = {"C01"}
PROFILE = "C01"
STRICT = False

ALIAS_FLOORS = [
    "op:setv2:loop:new=third", "op:setv1:loop:new=third", "op:setv1:plain:new=other", "op:setv2:plain:new=other",
    "op:setv1:plain:new=old", "op:setv2:plain:new=None", "op:setv1:half:new=third", "op:setv1:plain:new=third",
    "op:v_rm_link:edge:multi", "op:l_unlink_from:edge:multi", "op:v_rm_link:nlink:multi", "op:v_rm_link:edge:once",
    "op:v_add_link:edge:absent", "op:l_add_vertex:edge:once", "op:setv1:degenerate_less", "op:setv2:degenerate_more", "op:unlink:self:joined1:destroy", "op:unlink:pair:joined2:keep",
    "op:link:pair:joined1:dontdup", "op:mke:illtyped", "op:mke:loop", "op:mke:half", "op:mkv:links_dup",
]


def floors(ctx):
    q = ctx.tier == "quick"
    f = {"evaluations": 20000 if q else 200000, "ops_raised": 200, "histories": 1000, "bursts": 500}
    for a in ALIAS_FLOORS:
        f[a] = 1
    return f


def nontrivial_ops(counters_before, counters_after):
    keys = ("loop", "new=old", "new=other", "multi", "degenerate", "half", "illtyped", "self:", "joined2")
    for k, v in counters_after.items():
        if v > counters_before.get(k, 0) and any(x in k for x in keys):
            return True
    return False


STATES = set()


def run(ctx, profile=PROFILE, checks=CHECKS, strict=STRICT, depth=None, nrand=None, nontrivial=None):
    nontrivial = nontrivial or nontrivial_ops
    rng = random.Random(ctx.seed * 9176 + ctx.shard * 7919 + int(profile[1:]))
    quick = ctx.tier == "quick"
    counters = collections.Counter()
    STATES.clear()
    depth = depth or (2 if quick else 3)
    n = 0
    for bname, ops in histories.prelude(profile, depth):
        n += 1
        if n % ctx.nshards != ctx.shard:
            continue
        before = dict(counters)
        eng = histories.replay(ops, checks, strict, counters)
        ctx.count("prelude_histories")
        _one(ctx, eng, counters, before, checks, strict, nontrivial)
        if ctx.shard == 0 and n in (50, 5000):
            ctx.sample({"prelude_base": bname, "ops": ops})
    nrand = ctx.n(nrand or (1500 if quick else 6000))
    for i in range(nrand):
        before = dict(counters)
        eng = histories.generate(rng, profile, checks, rng.randint(40, 120), strict, counters,
                                 nv=rng.randint(2, 4))
        ctx.count("random_histories")
        _one(ctx, eng, counters, before, checks, strict, nontrivial)
        if ctx.shard == 0 and i in (3, 700):
            ctx.sample({"random_history": eng.executed[:40] + (["..."] if len(eng.executed) > 40 else [])})
    for k, v in counters.items():
        ctx.count(k, v)
    ctx.extra["distinct_states_visited"] = len(STATES)
    if ctx.tier == "thorough" and ctx.shard == 0 and profile in ("C01", "C02", "C19"):
        # E8: the repository's own test suite as one more workload under the model-free invariants
        from egverif import suite

        suite.run(ctx, profile)
    ctx.assumptions += [
        "vertices compare by identity; invariant evaluated only at client-call boundaries, over everything reachable "
        "from the pool through public accessors",
    ]


def _one(ctx, eng, counters, before, checks, strict, nontrivial):
    ctx.evaluated(eng.evals)
    ctx.count("histories")
    STATES.update(eng.states)
    if nontrivial(before, counters):
        ctx.nontrivial(eng.executed)
    if eng.findings:
        histories.report(ctx, eng, checks, strict)


def replay(ctx, case):
    eng = histories.replay(case["ops"], CHECKS, case.get("strict", STRICT))
    ctx.evaluated(max(1, eng.evals))
    if eng.findings:
        histories.report(ctx, eng, CHECKS, STRICT)
    ctx.nontrivial("replay-a")
    ctx.nontrivial("replay-b")
