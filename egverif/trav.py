"""
Shared machinery for the traversal properties C06 / C07 (and case generation
for C08).
"""

from __future__ import annotations

import random

from edgegraph.structure import TwoEndedLink, Vertex
from edgegraph.traversal import breadthfirst, depthfirst, helpers

from egverif import graphs, oracles, zoo
from egverif.common import ddmin
from egverif.oracles import DIRS, UNKS

TRAV = {
    "bft": (breadthfirst.bft, breadthfirst.ibft),
    "dft_recursive": (depthfirst.dft_recursive, depthfirst.idft_recursive),
    "dft_iterative": (depthfirst.dft_iterative, depthfirst.idft_iterative),
}


class Quiet:
    def evaluated(self, n=1):
        pass

    def nontrivial(self, case):
        pass

    def count(self, key, n=1):
        pass

    def should_shrink(self, *a):
        return False

    def sample(self, c):
        pass

    def __init__(self):
        self.v = []

    def violation(self, mech, what, case):
        self.v.append(mech)


def apply_mutations(g, muts):
    """Size-preserving in-place edits between two traversals of the SAME objects (stale-memo hunting)."""
    for m in muts:
        if m[0] == "uni_swap" and g.uni is not None:
            out_v, in_v = g.verts[m[1]], g.verts[m[2]]
            if any(x is out_v for x in g.uni.vertices) and not any(x is in_v for x in g.uni.vertices):
                g.uni.remove_vertex(out_v)
                g.uni.add_vertex(in_v)
        elif m[0] == "repoint" and m[1] < len(g.edges):
            e = g.edges[m[1]]
            if len(e.vertices) == 2 and isinstance(e, TwoEndedLink):
                e.v2 = g.verts[m[2]]
        elif m[0] == "relink":
            # remove a link and create an equal one: the number of links stays the same
            if m[1] < len(g.edges):
                e = g.edges[m[1]]
                ends = e.vertices
                if len(ends) == 2 and ends[0] is not None and ends[1] is not None:
                    a, b = ends
                    a.remove_from_link(e)
                    b.remove_from_link(e)
                    g.edges[m[1]] = type(e)(b, a, attributes={"tag": getattr(e, "tag", 0), "eidx": m[1]})


def mutated_spec(spec, muts):
    """The spec describing the graph after `muts` (for the oracle's bookkeeping only: sizes and features)."""
    return dict(spec, then=muts)


def run_case(ctx, nc, spec, si, dname, uname, vname, rname, cache, want, _shrinking=False, then=None):
    """
    Execute one traversal case on the real code and judge it.
    want: subset of {"C06", "C07"}.  Returns list of mechanism tags found.
    """
    if vname in ("reentrant", "mutual") and len(spec["verts"]) > 12:
        vname = "accept"  # the re-entrant filter runs a nested traversal per edge: small graphs only
    g = graphs.build(spec)
    step_limit = 20 * (len(spec["verts"]) + len(spec["edges"])) + 200

    def bounded(fn, *a, **kw):
        """Every call into a traversal runs under the logical step bound (number of vertex expansions)."""
        nc.arm(step_limit)
        try:
            return oracles.outcome(fn, *a, **kw)
        except oracles.ExpansionBound:
            return ("exc", oracles.ExpansionBound)
        finally:
            nc.disarm()

    if then:
        # first traverse the fresh graph with all three traversals (this is what may leave a stale memo behind),
        # then edit the same objects in place; everything below judges the EDITED graph
        Vertex.NEIGHBOR_CACHING = bool(cache)
        try:
            for _n, (lf, _gf) in TRAV.items():
                pre = bounded(lf, g.uni, g.verts[si], direction_sensitive=DIRS[dname], unknown_handling=UNKS[uname],
                              ff_via=zoo.NB_FILTERS[vname])
                if pre[0] == "exc" and pre[1] is oracles.ExpansionBound:
                    ctx.violation(f"{_n}:nontermination", f"{_n} expanded more than {step_limit} vertices on a graph of "
                                  f"{len(spec['verts'])} [start=v{si} dir={dname} unk={uname} via={vname} "
                                  f"uni={spec.get('uni')} edges={spec['edges']}]",
                                  {"spec": spec, "start": si, "dir": dname, "unk": uname, "via": vname, "res": rname,
                                   "cache": bool(cache), "then": None})
                    return [f"{_n}:nontermination"]
            apply_mutations(g, then)
        finally:
            Vertex.NEIGHBOR_CACHING = False
        ctx.count("cases_retraversed_after_in_place_edit")
        if g.uni is not None and not any(x is g.verts[si] for x in g.uni.vertices):
            return []
    start = g.verts[si]
    uni = g.uni
    d, u = DIRS[dname], UNKS[uname]
    via = zoo.NB_FILTERS[vname]
    res = zoo.RES_FILTERS[rname]
    inuni = oracles.member_test(uni)
    found = []
    case = {"spec": spec, "start": si, "dir": dname, "unk": uname, "via": vname, "res": rname, "cache": bool(cache),
            "then": then}

    def viol(mech, what):
        found.append(mech)
        ctx.violation(mech, what + f" [start=v{si} dir={dname} unk={uname} via={vname} res={rname} "
                      f"uni={spec.get('uni')} edges={spec['edges']}]", case)

    Vertex.NEIGHBOR_CACHING = bool(cache)
    try:
        # the functions under test run FIRST, on objects nobody has looked at yet (a lazily initialised structure
        # must not depend on the oracle having read the graph before); the oracle's own reads come afterwards
        limit = 20 * (len(spec["verts"]) + len(spec["edges"])) + 200
        first_outcomes = {}
        for name, (lf, gf) in TRAV.items():
            kw = dict(direction_sensitive=d, unknown_handling=u, ff_via=via)
            nc.arm(limit)
            try:
                first_outcomes[name] = oracles.outcome(lf, uni, start, **kw)
            except oracles.ExpansionBound:
                first_outcomes[name] = ("bound", None)
            finally:
                nc.disarm()
        # adjacency: the statement's own definition of "followed"
        raises_ni = [False]

        def adj(v):
            try:
                return nc.real(v, d, u, via)
            except NotImplementedError:
                raises_ni[0] = True
                return []

        closure = oracles.ref_closure(start, adj, inuni)
        expect_ni = raises_ni[0]
        results = {}
        for name, (lf, gf) in TRAV.items():
            kw = dict(direction_sensitive=d, unknown_handling=u, ff_via=via)
            out = first_outcomes[name]
            if out[0] == "bound":
                viol(f"{name}:nontermination", f"{name} expanded more than {limit} vertices on a graph with "
                     f"{len(spec['verts'])} vertices / {len(spec['edges'])} links")
                continue
            ctx.evaluated()
            if expect_ni:
                ctx.count("cases_expect_notimplemented")
                if not (out[0] == "exc" and out[1] is NotImplementedError):
                    viol(f"{name}:unknown_link_not_raised",
                         f"a reachable vertex has an unknown-type link under LNK_UNKNOWN_ERROR but {name} "
                         f"returned {_nm(g, out)}")
                continue
            if out[0] != "ok":
                viol(f"{name}:raised:{out[1].__name__}", f"{name} raised {out[1].__name__}")
                continue
            lst = out[1]
            results[name] = lst
            if "C06" in want:
                ids = [id(x) for x in lst]
                if len(set(ids)) != len(ids):
                    viol(f"{name}:repeat", f"{name} listed a vertex twice: {g.names(lst)}")
                elif not lst or lst[0] is not start:
                    viol(f"{name}:start_not_first", f"{name} = {g.names(lst)} does not start with the start vertex")
                elif set(ids) != {id(x) for x in closure}:
                    extra = [g.name(x) for x in lst if id(x) not in {id(c) for c in closure}]
                    miss = [g.name(c) for c in closure if id(c) not in set(ids)]
                    tag = "unreachable_listed" if extra else "reachable_missing"
                    if extra and any(not inuni(x) for x in lst):
                        tag = "out_of_universe_listed"
                    viol(f"{name}:{tag}", f"{name} = {g.names(lst)}; reachable set = {sorted(g.names(closure))}; "
                         f"extra={extra} missing={miss}")
                # generator form agrees element-wise
                nc.arm(limit)
                try:
                    gout = oracles.outcome(lambda: list(gf(uni, start, **kw)))
                except oracles.ExpansionBound:
                    gout = ("exc", oracles.ExpansionBound)
                finally:
                    nc.disarm()
                ctx.evaluated()
                if gout[0] != "ok" or not oracles.same_identities(gout[1], lst):
                    viol(f"{name}:generator_differs", f"list form {g.names(lst)} but generator form {_nm(g, gout)}")
            # ff_result only removes entries: the filtered listing is the unfiltered ORDER minus the rejected vertices
            # (part of C06's set claim and of C07's order claim alike)
            if res is not None:
                rout = bounded(lf, uni, start, ff_result=res, **kw)
                ctx.evaluated()
                ctx.count("ff_result_cases")
                expect = [x for x in lst if res(x)]
                if len(expect) != len(lst):
                    ctx.count("ff_result_removed_something")
                if rout[0] != "ok" or not oracles.same_identities(rout[1], expect):
                    viol(f"{name}:ff_result", f"with ff_result={rname}: {_nm(g, rout)}; unfiltered {g.names(lst)} "
                         f"minus rejected = {g.names(expect)}")
        if "C06" in want and len(results) == 3 and not expect_ni:
            kw = dict(direction_sensitive=d, unknown_handling=u, ff_via=via)
            for n1, n2 in (("dft_recursive", "dft_recursive"), ("bft", "dft_iterative"), ("dft_recursive", "bft")):
                other = g.verts[(si + 1) % len(g.verts)]
                if uni is not None and not inuni(other):
                    other = start
                g1, g2 = TRAV[n1][1](uni, start, **kw), TRAV[n2][1](uni, other, **kw)
                o1, o2 = [], []
                nc.arm(2 * step_limit)
                try:
                    alive = [True, True]
                    while any(alive):
                        for k_, (gen_, out_) in enumerate(((g1, o1), (g2, o2))):
                            if alive[k_]:
                                try:
                                    out_.append(next(gen_))
                                except StopIteration:
                                    alive[k_] = False
                                except NotImplementedError:
                                    if k_ == 0:
                                        raise
                                    # the companion traversal starts elsewhere and may legitimately meet an
                                    # unknown-type link under LNK_UNKNOWN_ERROR: it just ends there
                                    alive[k_] = False
                except oracles.ExpansionBound:
                    nc.disarm()
                    viol(f"{n2 if alive[1] and not alive[0] else n1}:nontermination", "two generator traversals consumed "
                         f"alternately (the second from v{g.verts.index(other)}) expanded more than {2 * step_limit} vertices")
                    break
                except Exception as exc:  # noqa: BLE001
                    nc.disarm()
                    viol(f"{n1}:interleaved_generators_raised:{type(exc).__name__}", f"two generator traversals consumed "
                         f"alternately raised {type(exc).__name__}")
                    break
                nc.disarm()
                ctx.evaluated()
                ctx.count("interleaved_generator_pairs")
                if not oracles.same_identities(o1, results[n1]):
                    viol(f"{n1}:interleaved_generator_differs", f"{n1} generator consumed alternately with a {n2} generator "
                         f"yields {g.names(o1)}; alone it yields {g.names(results[n1])}")
                    break
        if "C06" in want and len(results) == 3:
            sets = [sorted(id(x) for x in results[n]) for n in TRAV]
            if not (sets[0] == sets[1] == sets[2]):
                viol("agree_as_sets", "the three traversals disagree as sets: " +
                     "; ".join(f"{n}={g.names(results[n])}" for n in TRAV))
        if "C07" in want and not expect_ni:
            def adj2(v):
                return nc.real(v, d, u, via)

            if "bft" in results:
                exp, dist = oracles.ref_bfs(start, adj2, inuni)
                lst = results["bft"]
                ctx.evaluated()
                if not oracles.same_identities(exp, lst):
                    ds = [dist.get(id(x)) for x in lst]
                    if any(a is not None and b is not None and a > b for a, b in zip(ds, ds[1:])):
                        viol("bft:distance_decreases", f"bft = {g.names(lst)} with hop distances {ds}")
                    else:
                        viol("bft:order", f"bft = {g.names(lst)}; level-synchronous reference = {g.names(exp)}")
            if "dft_recursive" in results:
                exp = oracles.ref_dfs_preorder(start, adj2, inuni)
                ctx.evaluated()
                if not oracles.same_identities(exp, results["dft_recursive"]):
                    viol("dft_recursive:order", f"dft_recursive = {g.names(results['dft_recursive'])}; "
                         f"pre-order reference = {g.names(exp)}")
            if "dft_iterative" in results:
                exp = oracles.ref_dfs_preorder(start, adj2, inuni, reverse=True)
                ctx.evaluated()
                if not oracles.same_identities(exp, results["dft_iterative"]):
                    viol("dft_iterative:order", f"dft_iterative = {g.names(results['dft_iterative'])}; "
                         f"explicit-stack reference = {g.names(exp)}")
            # determinism: repeat the call; rebuild the same spec
            for name, (lf, _) in TRAV.items():
                if name not in results:
                    continue
                again = bounded(lf, uni, start, direction_sensitive=d, unknown_handling=u, ff_via=via)
                ctx.evaluated()
                if again[0] != "ok" or not oracles.same_identities(again[1], results[name]):
                    viol(f"{name}:not_repeatable", f"second call gave {_nm(g, again)}, first {g.names(results[name])}")
            if not _shrinking:
                g2 = graphs.build(spec)
                if then:
                    apply_mutations(g2, then)
                for name, (lf, _) in TRAV.items():
                    if name not in results:
                        continue
                    r2 = bounded(lf, g2.uni, g2.verts[si], direction_sensitive=d, unknown_handling=u, ff_via=via)
                    ctx.evaluated()
                    if r2[0] != "ok" or g2.names(r2[1]) != g.names(results[name]):
                        viol(f"{name}:rebuild_differs", f"same spec rebuilt gives {_nm(g2, r2)} vs {g.names(results[name])}")
            if len(results) == 3:
                b, r, i = (g.names(results[n]) for n in TRAV)
                if b != r and b != i and r != i:
                    ctx.count("graphs_orders_all_differ")
                    ctx.nontrivial(("orders", tuple(b), tuple(r), tuple(i)))
        if "C06" in want and len(results) == 3:
            if len(closure) > 1:
                ctx.nontrivial(("reach", _shape(spec), si, dname, uname, vname))
            if len(closure) < len(spec["verts"]):
                ctx.count("cases_partial_reach")
    finally:
        Vertex.NEIGHBOR_CACHING = False

    if found and not _shrinking and len(spec["edges"]) > 1:
        first = found[0]

        def fails(edges):
            q = Quiet()
            run_case(q, nc, dict(spec, edges=edges), si, dname, uname, vname, rname, cache, want, _shrinking=True, then=then)
            return first in q.v

        if not then:
            small = ddmin(list(spec["edges"]), fails)
            if len(small) < len(spec["edges"]) and fails(small):
                run_case(ctx, nc, dict(spec, edges=small), si, dname, uname, vname, rname, cache, want, _shrinking=True)
    return found


def _shape(spec):
    return (tuple(spec["verts"]), tuple(tuple(e[:3]) for e in spec["edges"]),
            tuple(spec["uni"]) if spec.get("uni") is not None else None)


def _nm(g, out):
    if out[0] == "exc":
        return f"raised {out[1].__name__}"
    try:
        return g.names(out[1])
    except TypeError:
        return repr(out[1])


def valid_starts(spec):
    if spec.get("uni") is None:
        return list(range(len(spec["verts"])))
    return list(dict.fromkeys(spec["uni"]))


def case_stream(ctx, rng: random.Random, n_random, nmax, mmax, exhaustive_n=3, big=()):
    """
    Yields (spec, start, dir, unk, via, res, cache).
    Deterministic parts first (split across shards), then random graphs.
    """
    k = 0
    # all digraphs on `exhaustive_n` vertices x start x direction (no loops for n=3 keeps it at 64.. use loops)
    for spec in graphs.all_digraphs(exhaustive_n, with_loops=(exhaustive_n <= 3)):
        k += 1
        if k % ctx.nshards != ctx.shard:
            continue
        ctx.count("exhaustive_digraphs")
        for si in range(exhaustive_n):
            for dname in oracles.DIR_NAMES:
                yield spec, si, dname, "ERROR", "none", "none", False
    # all mixed D/U graphs on 2 vertices
    for spec in graphs.all_small_mixed(2):
        k += 1
        if k % ctx.nshards != ctx.shard:
            continue
        for si in range(2):
            for dname in oracles.DIR_NAMES:
                yield spec, si, dname, "ERROR", "none", "even", False
    frng = random.Random(12345)
    fam = graphs.family_specs(frng, sizes=(4, 7, 12) + tuple(big))
    fam += graphs.family_specs(frng, sizes=(5, 9), ecls=graphs.ECLS_ALL, vcls=graphs.VCLS_MIX)
    fam += graphs.hub_specs(frng)
    for spec in fam:
        k += 1
        if k % ctx.nshards != ctx.shard:
            continue
        starts = valid_starts(spec)
        if not starts:
            continue
        for si in (starts[0], starts[len(starts) // 2], starts[-1]):
            for dname in oracles.DIR_NAMES:
                for uname in ("NONNEIGHBOR", "NEIGHBOR", "ERROR"):
                    yield spec, si, dname, uname, frng.choice(list(zoo.NB_FILTERS)), frng.choice(list(zoo.RES_FILTERS)), False
    for n in range(n_random):
        r = rng.random()
        if r < 0.5:
            spec = graphs.rand_spec(rng, nmax=nmax, mmax=mmax, ecls=graphs.ECLS_X, vcls=graphs.VCLS_XB)
        elif r < 0.8:
            spec = graphs.rand_spec(rng, nmax=nmax, mmax=mmax, ecls=graphs.ECLS_DU, vcls=graphs.VCLS_PLAIN)
        else:
            spec = graphs.rand_spec(rng, nmax=max(3, nmax // 2), mmax=mmax * 2, ecls=graphs.ECLS_DU)
        starts = valid_starts(spec)
        if not starts:
            continue
        for _ in range(3):
            yield (spec, rng.choice(starts), rng.choice(list(DIRS)), rng.choice(list(UNKS)),
                   rng.choice(list(zoo.NB_FILTERS)), rng.choice(list(zoo.RES_FILTERS)), rng.random() < 0.25)
