"""
E8: suite-under-monitor.  A pytest plugin (loaded with `-p egverif.pytest_monitor`
from /verif; nothing is added to the repository) that turns the repository's
own test suite into one more workload for the monitors:

* every BaseObject constructed during a test is registered (weakly);
* at the end of every test (a quiescent point) the model-free invariants of
  C01 / C02 / C19 are evaluated over the registered, fully constructed,
  well-typed objects;
* every helpers.neighbors() call made while NEIGHBOR_CACHING is on is shadowed
  in place: the flag is switched off, the answer recomputed, the flag restored
  (C05).  A disagreement is re-checked with a second shadow run; if the two
  shadow runs disagree with each other (a stateful filter) the event is
  discarded, not reported.

The report (counts + witnesses) is written to $EGVERIF_PYTEST_REPORT as JSON.
"""

from __future__ import annotations

import json
import os
import weakref

import pytest

REPORT = {"tests": 0, "sweeps": 0, "objects_checked": 0, "neighbors_calls": 0, "neighbors_shadowed": 0,
          "discarded_stateful": 0, "witnesses": []}
_objs: list = []
_state = {"node": None, "installed": False, "in_shadow": False}


def _witness(prop, clause, what):
    if len(REPORT["witnesses"]) < 50:
        REPORT["witnesses"].append({"property": prop, "clause": clause, "test": _state["node"], "what": what})


def _install():
    if _state["installed"]:
        return
    _state["installed"] = True
    from edgegraph.structure import Vertex
    from edgegraph.structure.base import BaseObject
    from edgegraph.traversal import helpers

    orig_init = BaseObject.__init__

    def init(self, *a, **kw):
        orig_init(self, *a, **kw)
        try:
            _objs.append(weakref.ref(self))
        except TypeError:
            pass

    BaseObject.__init__ = init

    real = helpers.neighbors

    def neighbors(vert, *a, **kw):
        REPORT["neighbors_calls"] += 1
        out = real(vert, *a, **kw)
        if _state["in_shadow"] or not Vertex.NEIGHBOR_CACHING:
            return out
        _state["in_shadow"] = True
        try:
            REPORT["neighbors_shadowed"] += 1

            def shadow():
                Vertex.NEIGHBOR_CACHING = False
                try:
                    return ("ok", real(vert, *a, **kw))
                except Exception as exc:  # noqa: BLE001
                    return ("exc", type(exc).__name__)
                finally:
                    Vertex.NEIGHBOR_CACHING = True

            s1 = shadow()
            same = s1[0] == "ok" and len(s1[1]) == len(out) and all(x is y for x, y in zip(s1[1], out))
            if not same:
                s2 = shadow()
                stable = s1[0] == s2[0] and (s1[0] != "ok" or (len(s1[1]) == len(s2[1]) and all(x is y for x, y in zip(s1[1], s2[1]))))
                if not stable:
                    REPORT["discarded_stateful"] += 1
                else:
                    _witness("C05", "cached_answer_differs_from_recomputed",
                             f"neighbors({type(vert).__name__}, {a}, {sorted(kw)}) cached -> {len(out)} entries, "
                             f"recomputed -> {s1[0]} {len(s1[1]) if s1[0] == 'ok' else s1[1]}")
        finally:
            _state["in_shadow"] = False
        return out

    neighbors.__wrapped__ = real
    helpers.neighbors = neighbors


def _sweep():
    from edgegraph.structure import Link, Universe, Vertex
    from edgegraph.structure.universe import UniverseLaws

    live = []
    for r in _objs:
        o = r()
        if o is not None:
            live.append(o)
    REPORT["sweeps"] += 1

    def ok_vertex(v):
        return isinstance(v, Vertex) and hasattr(v, "_links") and hasattr(v, "_universes")

    def ok_link(l):
        return isinstance(l, Link) and hasattr(l, "_vertices")

    for o in live:
        try:
            if ok_vertex(o):
                REPORT["objects_checked"] += 1
                links = o.links
                if len({id(l) for l in links}) != len(links):
                    _witness("C01", "duplicate_link", f"{type(o).__name__} lists a link twice")
                for l in links:
                    if ok_link(l) and not any(v is o for v in l.vertices):
                        _witness("C01", "link_listed_by_vertex_only", f"{type(l).__name__} in links of a {type(o).__name__} that it does not list")
                us = o.universes
                if len({id(u) for u in us}) != len(us):
                    _witness("C02", "duplicate_universe", f"{type(o).__name__}.universes has a duplicate")
                for u in us:
                    if isinstance(u, Universe) and hasattr(u, "_vertices") and not any(v is o for v in u.vertices):
                        _witness("C02", "universe_listed_by_vertex_only", "vertex lists a universe that does not list it")
            if ok_link(o):
                REPORT["objects_checked"] += 1
                for v in o.vertices:
                    if ok_vertex(v) and not any(l is o for l in v.links):
                        _witness("C01", "vertex_listed_by_link_only", f"{type(o).__name__} lists a {type(v).__name__} that does not list it")
            if isinstance(o, Universe) and hasattr(o, "_vertices") and hasattr(o, "_laws"):
                vs = o.vertices
                if len({id(v) for v in vs}) != len(vs):
                    _witness("C02", "duplicate_member", "Universe.vertices has a duplicate")
                for v in vs:
                    if ok_vertex(v) and not any(u is o for u in v.universes):
                        _witness("C02", "member_listed_by_universe_only", "universe lists a vertex that does not list it")
                l = o.laws
                if isinstance(l, UniverseLaws) and hasattr(l, "_applies_to") and l.applies_to is not o:
                    _witness("C19", "universe_keeps_laws_bound_elsewhere", "u.laws is L but L.applies_to is not u")
            if isinstance(o, UniverseLaws) and hasattr(o, "_applies_to"):
                u = o.applies_to
                if isinstance(u, Universe) and hasattr(u, "_laws") and u.laws is not o:
                    _witness("C19", "laws_claim_universe_that_has_other_laws", "L.applies_to is u but u.laws is not L")
        except Exception as exc:  # noqa: BLE001 - a half-constructed object: skip
            REPORT.setdefault("skipped_objects", 0)
            REPORT["skipped_objects"] += 1
    del _objs[:]


def pytest_configure(config):
    _install()


@pytest.hookimpl(hookwrapper=True)
def pytest_runtest_protocol(item, nextitem):
    # objects built by fixtures belong to the test too: clear before setup, sweep after teardown
    _state["node"] = item.nodeid
    del _objs[:]
    yield
    REPORT["tests"] += 1
    _sweep()


def pytest_sessionfinish(session, exitstatus):
    path = os.environ.get("EGVERIF_PYTEST_REPORT")
    if path:
        with open(path, "w") as fp:
            json.dump(REPORT, fp, indent=1)
