"""
Workload generation for the history-based properties: op choice from the
*observed* state of the real pool (so aliasing is the norm), aliasing
classification of an op (for coverage floors and mechanism tags), and the
bounded-exhaustive prelude.
"""

from __future__ import annotations

import random

from edgegraph.structure import Link, TwoEndedLink, Universe, Vertex
from edgegraph.structure.universe import UniverseLaws

from egverif import zoo

VCLS = ["Vertex", "VSub", "VSubSub", "FalsyVertex", "EmptyVertex", "VCustomState", "VCachingOn"]
ECLS = list(zoo.EDGE_CLASSES)

W_STRUCT = {"mke": 12, "mkl": 2, "mkv": 4, "setv1": 10, "setv2": 10, "v_add_link": 5, "v_rm_link": 8,
            "l_add_vertex": 5, "l_unlink_from": 8, "link": 10, "unlink": 8, "mke_ill": 2}
W_MEMB = {"mkv_u": 4, "mku": 3, "u_add": 8, "u_rm": 8, "v_add_uni": 8, "v_rm_uni": 8}
W_LAWS = {"mku_l": 4, "mkw": 3, "set_laws": 10, "set_applies": 10}

PROFILES = {
    # universes are vertices: they take part as edge ends, and carry members that have links of their own
    "C01": {**W_STRUCT, "mku": 1, "mkv_u": 1, "u_add": 4, "v_add_uni": 2},
    "C02": dict(W_MEMB),
    # laws are (re)assigned on universes that have members, nested universes and themselves among them
    "C19": {**W_LAWS, "u_add": 3, "v_add_uni": 2, "u_rm": 1, "mkv_u": 1, "w_file": 3},
    "C03": {**W_STRUCT, **{k: v // 2 + 1 for k, v in W_MEMB.items()}, **{k: v // 3 + 1 for k, v in W_LAWS.items()},
            "other": 6},
}
LIMITS = {"V": 5, "U": 3, "E": 7, "M": 2, "W": 4}


class Gen:
    def __init__(self, rng: random.Random, profile: str, weights=None):
        self.rng = rng
        self.weights = dict(weights or PROFILES[profile])
        self.n = {"V": 0, "U": 0, "E": 0, "M": 0, "W": 0}
        self.recent: list[str] = []
        self.dup_uids = False

    def fresh(self, prefix):
        k = self.n[prefix]
        self.n[prefix] += 1
        return f"{prefix}{k}"

    # ---- picking ----------------------------------------------------------
    def _pick(self, names):
        names = list(names)
        if not names:
            return None
        rec = [n for n in names if n in self.recent]
        if rec and self.rng.random() < 0.55:
            return self.rng.choice(rec)
        return self.rng.choice(names)

    def vertices(self, pool):
        return [n for n, o in pool.objs.items() if isinstance(o, Vertex)]

    def plain_vertices(self, pool):
        return [n for n, o in pool.objs.items() if isinstance(o, Vertex) and not isinstance(o, Universe)]

    def universes(self, pool):
        return [n for n, o in pool.objs.items() if isinstance(o, Universe)]

    def edges(self, pool):
        return [n for n, o in pool.objs.items() if isinstance(o, TwoEndedLink)]

    def links(self, pool):
        return [n for n, o in pool.objs.items() if isinstance(o, Link)]

    def laws(self, pool):
        return [n for n, o in pool.objs.items() if isinstance(o, UniverseLaws)]

    def count(self, pool, prefix):
        return sum(1 for n in pool.objs if n.startswith(prefix) and not n.startswith("W_"))

    def _ckind(self):
        return self.rng.choice(["list", "list", "tuple", "gen", "iter"])

    # ---- one op -------------------------------------------------------------
    def initial(self, pool, nv=3):
        ops = []
        for _ in range(nv):
            op = ["mkv", self.fresh("V"), self.rng.choice(VCLS), [], []]
            if self.dup_uids and self.rng.random() < 0.6:
                op += ["list", self.rng.randint(1, 2)]  # distinct vertices sharing a uid
            ops.append(op)
        return ops

    def next_op(self, pool):
        r = self.rng
        for _ in range(50):
            kinds = list(self.weights)
            kind = r.choices(kinds, [self.weights[k] for k in kinds])[0]
            op = getattr(self, "g_" + kind)(pool)
            if op is not None:
                self.recent = [x for x in _flat(op[1:]) if isinstance(x, str)][:6]
                return op
        return None

    # unobserved bursts ------------------------------------------------------
    def blind_burst(self, pool):
        """
        [constructor, op on the new object, ...] chosen from names and types only - no accessor of any pool
        object is read, so nothing lazily initialised gets a chance to initialise before the ops run.
        """
        r = self.rng
        names = list(pool.objs)
        vs = [n for n in names if isinstance(pool.objs[n], Vertex)]
        us = [n for n in names if isinstance(pool.objs[n], Universe)]
        ws = [n for n in names if isinstance(pool.objs[n], UniverseLaws)]
        es = [n for n in names if isinstance(pool.objs[n], TwoEndedLink)]
        kinds = [k for k in ("mku", "mkv", "mke", "mkw") if any(k in w for w in self.weights)]
        if "mku_l" in self.weights or "mku" in self.weights:
            kinds.append("mku")
        if not kinds:
            return None
        kind = r.choice(kinds)
        out = []
        if kind == "mku" and self.count(pool, "U") < LIMITS["U"] + 1:
            u = self.fresh("U")
            w = r.choice(ws) if ws and r.random() < 0.4 and ("mkw" in self.weights or "set_laws" in self.weights) else None
            members = [r.choice(vs) for _ in range(r.randint(0, 2))] if vs and "u_add" in self.weights else []
            out.append(["mku", u, members, w])
            follow = []
            if "set_laws" in self.weights:
                follow += [["set_laws", u, None], ["set_laws", u, r.choice(ws) if ws else None]]
                if ws:
                    follow.append(["set_applies", r.choice(ws), u])
            if "u_add" in self.weights and vs:
                v = r.choice(vs)
                follow += [["u_add", u, v], ["u_rm", u, r.choice(members or vs)], ["v_add_uni", v, u], ["v_rm_uni", r.choice(members or vs), u]]
            out += r.sample(follow, min(len(follow), r.randint(1, 2))) if follow else []
        elif kind == "mkv" and self.count(pool, "V") < LIMITS["V"] + 1:
            v = self.fresh("V")
            unis = [r.choice(us)] if us and "u_add" in self.weights else []
            links = [r.choice(es)] if es and "mke" in self.weights and r.random() < 0.4 else []
            out.append(["mkv", v, r.choice(VCLS), links, unis, self._ckind()])
            follow = []
            if unis:
                follow += [["v_rm_uni", v, unis[0]], ["u_rm", unis[0], v], ["u_add", unis[0], v]]
            if "mke" in self.weights and vs:
                follow += [["mke", self.fresh("E"), r.choice(ECLS), v, r.choice(vs + [v])]]
            if links:
                follow += [["v_rm_link", v, links[0]], ["l_unlink_from", links[0], v]]
            out += r.sample(follow, min(len(follow), r.randint(1, 2))) if follow else []
        elif kind == "mke" and vs and self.count(pool, "E") < LIMITS["E"] + 1:
            e = self.fresh("E")
            a, b = r.choice(vs), r.choice(vs)
            out.append(["mke", e, r.choice(ECLS), a, b])
            follow = [["setv1", e, r.choice(vs + [None])], ["setv2", e, r.choice(vs + [None])], ["v_rm_link", a, e],
                      ["l_unlink_from", e, b], ["unlink", a, b, True], ["v_add_link", r.choice(vs), e]]
            out += r.sample(follow, r.randint(1, 2))
        elif kind == "mkw":
            w = self.fresh("W")
            out.append(["mkw", w, r.randrange(4)])
            if us:
                out.append(r.choice([["set_laws", r.choice(us), w], ["set_applies", w, r.choice(us)], ["set_applies", w, None]]))
        return out if len(out) >= 2 else None

    # structure ---------------------------------------------------------------
    def _end(self, pool, allow_none=True):
        vs = self.vertices(pool)
        if allow_none and self.rng.random() < 0.08:
            return None
        return self._pick(vs)

    def g_mke(self, pool):
        if self.count(pool, "E") >= LIMITS["E"]:
            return None
        a = self._end(pool)
        b = a if self.rng.random() < 0.2 else self._end(pool)
        return ["mke", self.fresh("E"), self.rng.choice(ECLS), a, b]

    def g_mke_ill(self, pool):
        if self.count(pool, "E") >= LIMITS["E"]:
            return None
        bad = self.rng.choice(["!obj", "!int", "!link"])
        a = self._end(pool)
        pair = [a, bad] if self.rng.random() < 0.5 else [bad, a]
        return ["mke", self.fresh("E"), self.rng.choice(ECLS), pair[0], pair[1]]

    def g_mkl(self, pool):
        if self.count(pool, "M") >= LIMITS["M"]:
            return None
        vs = self.vertices(pool)
        if not vs:
            return None
        k = self.rng.randint(1, 4)
        verts = [self._pick(vs) for _ in range(k)]
        return ["mkl", self.fresh("M"), verts, self._ckind()]

    def g_mkv(self, pool):
        if self.count(pool, "V") >= LIMITS["V"]:
            return None
        ls = self.links(pool)
        links = [self._pick(ls) for _ in range(self.rng.randint(0, 2))] if ls else []
        return ["mkv", self.fresh("V"), self.rng.choice(VCLS), links, [], self._ckind()]

    def _setv(self, pool, which):
        es = self.edges(pool)
        e = self._pick(es)
        if e is None:
            return None
        ends = list(pool.get(e).vertices)
        cands = [pool.name(x) for x in ends if x is not None and not pool.name(x).startswith("?")]
        third = [v for v in self.vertices(pool) if v not in cands]
        r = self.rng.random()
        if len(cands) < len(ends) and self.rng.random() < 0.3:
            # a half-open edge: open it completely (or re-assign None to the open end)
            return [which, e, None]
        if r < 0.45 and cands:
            x = self.rng.choice(cands)
        elif r < 0.9 and third:
            x = self._pick(third)
        else:
            x = None
        return [which, e, x]

    def g_setv1(self, pool):
        return self._setv(pool, "setv1")

    def g_setv2(self, pool):
        return self._setv(pool, "setv2")

    def _vl(self, pool, kind, related_bias):
        ls = self.links(pool)
        l = self._pick(ls)
        if l is None:
            return None
        has_none = any(x is None for x in pool.get(l).vertices)
        if kind in ("l_unlink_from", "l_add_vertex") and self.rng.random() < (0.35 if has_none else 0.04):
            # None is a legal "end" of a half-assigned edge: it can be removed from / added to the end list
            return [kind, l, None]
        ends = [pool.name(x) for x in pool.get(l).vertices if x is not None and not pool.name(x).startswith("?")]
        if ends and self.rng.random() < related_bias:
            v = self.rng.choice(ends)
        else:
            v = self._pick(self.vertices(pool))
        if v is None:
            return None
        return [kind, v, l] if kind.startswith("v_") else [kind, l, v]

    def g_v_add_link(self, pool):
        return self._vl(pool, "v_add_link", 0.3)

    def g_v_rm_link(self, pool):
        return self._vl(pool, "v_rm_link", 0.8)

    def g_l_add_vertex(self, pool):
        return self._vl(pool, "l_add_vertex", 0.3)

    def g_l_unlink_from(self, pool):
        return self._vl(pool, "l_unlink_from", 0.8)

    def _pair(self, pool):
        vs = self.vertices(pool)
        if not vs:
            return None, None
        es = self.edges(pool)
        if es and self.rng.random() < 0.6:
            ends = [pool.name(x) for x in pool.get(self._pick(es)).vertices]
            ends = [x for x in ends if x is not None and not x.startswith("?")]
            if len(ends) == 2:
                return (ends[0], ends[1]) if self.rng.random() < 0.5 else (ends[1], ends[0])
        a = self._pick(vs)
        b = a if self.rng.random() < 0.15 else self._pick(vs)
        return a, b

    def g_link(self, pool):
        if self.count(pool, "E") >= LIMITS["E"]:
            return None
        a, b = self._pair(pool)
        if a is None:
            return None
        fn = self.rng.choice(["from_to", "directed", "undirected"])
        return ["link", fn, a, self.rng.choice(ECLS), b, self.rng.random() < 0.5, self.fresh("E")]

    def g_other(self, pool):
        e = self._pick(self.edges(pool))
        if e is None:
            return None
        ends = [pool.name(x) if x is not None else None for x in pool.get(e).vertices]
        ends = [x for x in ends if x is None or not x.startswith("?")]
        if ends and self.rng.random() < 0.7:
            return ["other", e, self.rng.choice(ends)]  # (None is an end of a half-open edge)
        return ["other", e, self.rng.choice([None] + self.vertices(pool))]

    def g_unlink(self, pool):
        a, b = self._pair(pool)
        if a is None:
            return None
        return ["unlink", a, b, self.rng.random() < 0.5]

    # membership ----------------------------------------------------------------
    def g_mkv_u(self, pool):
        if self.count(pool, "V") >= LIMITS["V"]:
            return None
        us = self.universes(pool)
        unis = [self._pick(us) for _ in range(self.rng.randint(0, 3))] if us else []
        ls = self.links(pool)
        # both arguments in one call now and then (links are attached before the universes are told)
        links = [self._pick(ls)] if ls and "mke" in self.weights and self.rng.random() < 0.3 else []
        return ["mkv", self.fresh("V"), self.rng.choice(VCLS), links, unis, self._ckind()]

    def g_mku(self, pool):
        if self.count(pool, "U") >= LIMITS["U"]:
            return None
        vs = self.vertices(pool)
        verts = [self._pick(vs) for _ in range(self.rng.randint(0, 4))] if vs else []
        return ["mku", self.fresh("U"), verts, None, self._ckind()]

    def _uv(self, pool, member_bias, want_member):
        u = self._pick(self.universes(pool))
        if u is None:
            return None, None
        members = [pool.name(x) for x in pool.get(u).vertices]
        members = [m for m in members if not m.startswith("?")]
        others = [v for v in self.vertices(pool) if v not in members]
        pick_member = self.rng.random() < member_bias
        src = members if (pick_member and members) else (others or members)
        if not src:
            return None, None
        return u, self._pick(src)

    def g_u_add(self, pool):
        u, v = self._uv(pool, 0.3, False)
        return None if u is None else ["u_add", u, v]

    def g_v_add_uni(self, pool):
        u, v = self._uv(pool, 0.3, False)
        return None if u is None else ["v_add_uni", v, u]

    def g_u_rm(self, pool):
        u, v = self._uv(pool, 0.75, True)
        return None if u is None else ["u_rm", u, v]

    def g_v_rm_uni(self, pool):
        u, v = self._uv(pool, 0.75, True)
        return None if u is None else ["v_rm_uni", v, u]

    # laws ------------------------------------------------------------------------
    def g_mkw(self, pool):
        if self.count(pool, "W") >= LIMITS["W"]:
            return None
        return ["mkw", self.fresh("W"), self.rng.randrange(4)]

    def g_mku_l(self, pool):
        if self.count(pool, "U") >= LIMITS["U"]:
            return None
        ws = self.laws(pool)
        w = self._pick(ws) if ws and self.rng.random() < 0.7 else None
        return ["mku", self.fresh("U"), [], w]

    def g_set_laws(self, pool):
        u = self._pick(self.universes(pool))
        if u is None:
            return None
        ws = self.laws(pool)
        w = None if (not ws or self.rng.random() < 0.25) else self._pick(ws)
        return ["set_laws", u, w]

    def g_set_applies(self, pool):
        w = self._pick(self.laws(pool))
        if w is None:
            return None
        us = self.universes(pool)
        u = None if (not us or self.rng.random() < 0.25) else self._pick(us)
        return ["set_applies", w, u]


    def g_w_file(self, pool):
        w = self._pick(self.laws(pool))
        u = self._pick(self.universes(pool))
        return None if w is None or u is None else ["w_file", w, u]


def _flat(xs):
    for x in xs:
        if isinstance(x, (list, tuple)):
            yield from _flat(x)
        else:
            yield x


# ---------------------------------------------------------------------------
# aliasing classification (computed on the observed state *before* the op)
# ---------------------------------------------------------------------------


def alias_class(pool, op) -> str:
    k = op[0]
    try:
        if k in ("setv1", "setv2"):
            e = pool.get(op[1])
            x = None if op[2] is None else pool.get(op[2])
            ends = e.vertices
            if not isinstance(e, TwoEndedLink):
                return "not_two_ended"
            if len(ends) != 2:
                return "degenerate_more" if len(ends) > 2 else "degenerate_less"
            i = 0 if k == "setv1" else 1
            old, other = ends[i], ends[1 - i]
            shape = "loop" if (old is other and old is not None) else "half" if (old is None or other is None) else "plain"
            if x is None:
                rel = "new=None"
            elif x is old and x is other:
                rel = "new=old=other"
            elif x is old:
                rel = "new=old"
            elif x is other:
                rel = "new=other"
            else:
                rel = "new=third"
            extra = ""
            if x is not None and any(l is e for l in x.links) and x is not old and x is not other:
                extra = ":third_already_lists_edge"
            return f"{shape}:{rel}{extra}"
        if k in ("v_add_link", "v_rm_link", "l_add_vertex", "l_unlink_from"):
            v, l = (op[1], op[2]) if k.startswith("v_") else (op[2], op[1])
            if v is None:
                return "vertex=None"
            vo, lo = pool.get(v), pool.get(l)
            n = sum(1 for x in lo.vertices if x is vo)
            cnt = "absent" if n == 0 else "once" if n == 1 else "multi"
            kind = "nlink" if not isinstance(lo, TwoEndedLink) else "edge" if len(lo.vertices) == 2 else "edge_degenerate"
            return f"{kind}:{cnt}"
        if k == "mke":
            a, b = op[3], op[4]
            if any(isinstance(x, str) and x.startswith("!") for x in (a, b)):
                return "illtyped"
            if a is None or b is None:
                return "half"
            return "loop" if a == b else "plain"
        if k == "mkl":
            vs = op[2]
            return "multi_listing" if len(set(vs)) < len(vs) else "distinct"
        if k == "mkv":
            ls, us = op[3], op[4]
            t = []
            if ls:
                t.append("links_dup" if len(set(ls)) < len(ls) else "links")
            if us:
                t.append("unis_dup" if len(set(us)) < len(us) else "unis")
            ck = op[5] if len(op) > 5 else "list"
            return ("+".join(t) or "bare") + ("" if ck == "list" or not (ls or us) else ":" + ck)
        if k in ("link", "unlink"):
            a, b = (op[2], op[4]) if k == "link" else (op[1], op[2])
            va, vb = pool.get(a), pool.get(b)
            j = 0
            for l in va.links:
                ends = l.vertices
                if len(ends) == 2 and isinstance(l, TwoEndedLink):
                    x, y = ends
                    if (va is vb and x is va and y is va) or (va is not vb and ((x is va and y is vb) or (x is vb and y is va))):
                        j += 1
            t = ("self" if a == b else "pair") + f":joined{min(j, 2)}"
            if k == "link":
                t += ":dontdup" if op[5] else ":dup"
            else:
                t += ":destroy" if op[3] else ":keep"
            return t
        if k in ("u_add", "u_rm", "v_add_uni", "v_rm_uni"):
            u, v = (op[1], op[2]) if k.startswith("u_") else (op[2], op[1])
            uo, vo = pool.get(u), pool.get(v)
            mem = "member" if any(x is vo for x in uo.vertices) else "nonmember"
            nest = "self" if uo is vo else "nested" if isinstance(vo, Universe) else "plain"
            return f"{mem}:{nest}"
        if k == "mku":
            vs, w = op[2], op[3]
            t = "dupverts" if len(set(vs)) < len(vs) else "verts" if vs else "empty"
            if w is None:
                return t + ":autolaws"
            wo = pool.get(w)
            return t + (":laws_bound_elsewhere" if wo.applies_to is not None else ":laws_free")
        if k == "set_laws":
            uo = pool.get(op[1])
            cur = "u_has_laws" if uo.laws is not None else "u_laws_None"
            if op[2] is None:
                return f"{cur}:new=None"
            wo = pool.get(op[2])
            if wo is uo.laws:
                return f"{cur}:new=current"
            return f"{cur}:" + ("new_bound_elsewhere" if wo.applies_to is not None else "new_free")
        if k == "w_file":
            wo, uo = pool.get(op[1]), pool.get(op[2])
            return "governs" if wo.applies_to is uo else "elsewhere" if wo.applies_to is not None else "free"
        if k == "set_applies":
            wo = pool.get(op[1])
            cur = "w_bound" if wo.applies_to is not None else "w_free"
            if op[2] is None:
                return f"{cur}:new=None"
            uo = pool.get(op[2])
            if uo is wo.applies_to:
                return f"{cur}:new=current"
            return f"{cur}:" + ("u_has_other_laws" if uo.laws is not None else "u_laws_None")
    except (KeyError, AttributeError, IndexError):
        return "dangling"
    return "-"
