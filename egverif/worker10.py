"""
Fresh-interpreter side of C10: loads each payload, returns its canonical form
and the answers of the query battery.
usage: python -m egverif.worker10 <payloads.json>
"""

from __future__ import annotations

import base64
import json
import pickle
import sys


def main():
    from egverif import common

    common.assert_repo_under_test()
    from edgegraph.structure import Vertex

    from egverif import canon

    with open(sys.argv[1]) as fp:
        payloads = json.load(fp)
    outs = []
    for p in payloads:
        data = base64.b64decode(p["pickle_b64"])
        Vertex.NEIGHBOR_CACHING = bool(p["cache"])
        try:
            if p["loader"] == "dill":
                import dill

                root = dill.loads(data)
            else:
                root = pickle.loads(data)
            form, objs = canon.canonical(root)
            bat = canon.battery(objs)
            outs.append({"form": form, "battery": bat})
        except Exception as exc:  # noqa: BLE001
            outs.append({"error": type(exc).__name__})
        finally:
            Vertex.NEIGHBOR_CACHING = False
    json.dump(outs, sys.stdout)


if __name__ == "__main__":
    main()
