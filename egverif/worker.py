"""
Fresh-interpreter continuation of a history (C05) / battery on an un-pickled
graph (C10).  usage: python -m egverif.worker <payload.json>
payload: {"pickle_b64": ..., "loader": "pickle"|"dill", "cache": bool,
          "ops": [...]}            -> prints {"log": [...]} as JSON
"""

from __future__ import annotations

import base64
import json
import pickle
import sys


def main():
    from egverif import common

    common.assert_repo_under_test()
    from edgegraph.structure import Vertex

    from egverif import driver

    with open(sys.argv[1]) as fp:
        payload = json.load(fp)
    data = base64.b64decode(payload["pickle_b64"])
    Vertex.NEIGHBOR_CACHING = bool(payload["cache"])
    if payload.get("loader") == "dill":
        import dill

        objs = dill.loads(data)
    else:
        objs = pickle.loads(data)
    pool = driver.Pool()
    pool.rebind(objs)
    log = []
    for op in payload["ops"]:
        if op[0] in ("reload", "hop"):
            log.append(["ok", None])
            continue
        res = driver.execute(pool, op)
        log.append(list(res))
    out = {"log": log}
    if payload.get("want_snapshot"):
        from egverif import observe

        out["snapshot"] = {k: list(v) for k, v in observe.snapshot(pool).items()}
    json.dump(out, sys.stdout, default=repr)


if __name__ == "__main__":
    main()
