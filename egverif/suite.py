"""
Runs the repository's own test suite under the E8 pytest plugin and feeds what
the monitors observed into a check's context (thorough tier of C01/C02/C05/C19).
"""

from __future__ import annotations

import json
import os
import subprocess
import sys
import tempfile

from egverif import common


def run(ctx, prop: str):
    repo = common.repo_dir()
    fd, path = tempfile.mkstemp(prefix="egv_suite_", suffix=".json")
    os.close(fd)
    try:
        env = dict(os.environ, EGVERIF_PYTEST_REPORT=path, PYTHONPATH=f"{common.VERIF_DIR}:{repo}")
        r = subprocess.run([sys.executable, "-B", "-m", "pytest", "-q", "-p", "no:cacheprovider", "-p", "egverif.pytest_monitor",
                            "--timeout=900", "-x", "tests"], cwd=repo, env=env, capture_output=True, text=True, timeout=1500)
        try:
            with open(path) as fp:
                rep = json.load(fp)
        except (OSError, ValueError):
            ctx.count("suite_monitor_unavailable")
            ctx.extra["suite_under_monitor"] = {"error": (r.stdout or r.stderr)[-300:]}
            return
    finally:
        if os.path.exists(path):
            os.unlink(path)
    mine = [w for w in rep["witnesses"] if w["property"] == prop]
    ctx.extra["suite_under_monitor"] = {k: v for k, v in rep.items() if k != "witnesses"}
    ctx.extra["suite_under_monitor"]["pytest_exit"] = r.returncode
    ctx.count("suite_tests_monitored", rep["tests"])
    ctx.count("suite_invariant_sweeps", rep["sweeps"])
    ctx.count("suite_neighbors_calls_shadowed", rep["neighbors_shadowed"])
    ctx.evaluated(rep["sweeps"] if prop != "C05" else rep["neighbors_shadowed"])
    for w in mine:
        ctx.violation(f"suite:{w['clause']}", f"while running the repository's test {w['test']}: {w['what']}",
                      {"kind": "suite", "test": w["test"]})
