"""
E2: observers.  Only public accessors are read.

snapshot(pool) -> canonical, comparable value (dict of name -> tuple)
assoc_witnesses / membership_witnesses / laws_witnesses -> lists of violations
of the model-free invariants (C01 / C02 / C19).
"""

from __future__ import annotations

from edgegraph.structure import Link, Universe, Vertex
from edgegraph.structure.universe import UniverseLaws


def reachable(pool):
    """
    Pool objects plus everything reachable from them through the public
    accessors (objects that are not in the pool get '?Type' names and cannot
    be told apart by name, but are still checked).
    """
    seen = {}
    work = list(pool.objs.values())
    while work:
        o = work.pop()
        if o is None or id(o) in seen:
            continue
        seen[id(o)] = o
        if isinstance(o, Vertex):
            work.extend(o.links)
            work.extend(u for u in o.universes if isinstance(u, (Vertex, Link, UniverseLaws)))
            if isinstance(o, Universe):
                work.extend(v for v in o.vertices if isinstance(v, (Vertex, Link, UniverseLaws)))
                if o.laws is not None:
                    work.append(o.laws)
        elif isinstance(o, Link):
            work.extend(v for v in o.vertices if isinstance(v, Vertex))
        elif isinstance(o, UniverseLaws):
            if isinstance(o.applies_to, Universe):
                work.append(o.applies_to)
    return list(seen.values())


def snapshot(pool) -> dict:
    snap = {}
    nm = pool.name
    for name, o in pool.objs.items():
        if isinstance(o, Universe):
            snap[name] = ("U", tuple(map(nm, o.links)), tuple(map(nm, o.universes)), tuple(map(nm, o.vertices)), nm(o.laws))
        elif isinstance(o, Vertex):
            snap[name] = ("V", tuple(map(nm, o.links)), tuple(map(nm, o.universes)))
        elif isinstance(o, Link):
            snap[name] = ("L", tuple(map(nm, o.vertices)))
        elif isinstance(o, UniverseLaws):
            snap[name] = ("W", nm(o.applies_to))
    return snap


def assoc_witnesses(pool) -> list[tuple[str, str]]:
    """C01: l in v.links <=> v in l.vertices (identity); v.links duplicate-free."""
    out = []
    objs = reachable(pool)
    nm = pool.name
    for o in objs:
        if isinstance(o, Vertex):
            links = o.links
            ids = [id(l) for l in links]
            if len(set(ids)) != len(ids):
                out.append(("duplicate_link", f"{nm(o)}.links lists a link twice: {pool.names(links)}"))
            for l in links:
                if not any(v is o for v in l.vertices):
                    out.append(("link_listed_by_vertex_only",
                                f"{nm(l)} in {nm(o)}.links but {nm(o)} not in {nm(l)}.vertices={pool.names(l.vertices)}"))
        elif isinstance(o, Link):
            for v in o.vertices:
                if v is None or not isinstance(v, Vertex):
                    continue
                if not any(l is o for l in v.links):
                    out.append(("vertex_listed_by_link_only",
                                f"{nm(v)} in {nm(o)}.vertices={pool.names(o.vertices)} but {nm(o)} not in {nm(v)}.links="
                                f"{pool.names(v.links)}"))
    return out


def membership_witnesses(pool) -> list[tuple[str, str]]:
    """C02: v in u.vertices <=> u in v.universes; no duplicates on either side."""
    out = []
    nm = pool.name
    for o in reachable(pool):
        if isinstance(o, Universe):
            vs = o.vertices
            if len({id(v) for v in vs}) != len(vs):
                out.append(("duplicate_member", f"{nm(o)}.vertices has a duplicate: {pool.names(vs)}"))
            for v in vs:
                if isinstance(v, Vertex) and not any(u is o for u in v.universes):
                    out.append(("member_listed_by_universe_only",
                                f"{nm(v)} in {nm(o)}.vertices but {nm(o)} not in {nm(v)}.universes={pool.names(v.universes)}"))
        if isinstance(o, Vertex):
            us = o.universes
            if len({id(u) for u in us}) != len(us):
                out.append(("duplicate_universe", f"{nm(o)}.universes has a duplicate: {pool.names(us)}"))
            for u in us:
                if isinstance(u, Universe) and not any(v is o for v in u.vertices):
                    out.append(("universe_listed_by_vertex_only",
                                f"{nm(u)} in {nm(o)}.universes but {nm(o)} not in {nm(u)}.vertices={pool.names(u.vertices)}"))
    return out


def laws_witnesses(pool) -> list[tuple[str, str]]:
    """C19: u.laws is L <=> L.applies_to is u."""
    out = []
    nm = pool.name
    for o in reachable(pool):
        if isinstance(o, Universe):
            l = o.laws
            if l is not None and l.applies_to is not o:
                out.append(("universe_keeps_laws_bound_elsewhere",
                            f"{nm(o)}.laws is {nm(l)} but {nm(l)}.applies_to is {nm(l.applies_to)}"))
        elif isinstance(o, UniverseLaws):
            u = o.applies_to
            if u is not None and u.laws is not o:
                out.append(("laws_claim_universe_that_has_other_laws",
                            f"{nm(o)}.applies_to is {nm(u)} but {nm(u)}.laws is {nm(u.laws)}"))
    return out
