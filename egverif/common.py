"""
Run context: counters, verdict protocol, evidence and replay files, known findings.
"""

from __future__ import annotations

import collections
import hashlib
import json
import os
import sys
import time

VERIF_DIR = os.path.dirname(os.path.dirname(os.path.abspath(__file__)))
KNOWN_FINDINGS = os.path.join(VERIF_DIR, "known_findings.json")

EXIT_HELD = 0
EXIT_VIOLATION = 1
EXIT_INCONCLUSIVE = 2


def repo_dir() -> str:
    return os.path.abspath(os.environ.get("EGVERIF_REPO", "/repo"))


def assert_repo_under_test():
    """Every run must execute the working tree being checked."""
    import edgegraph

    want = repo_dir()
    got = os.path.abspath(os.path.dirname(os.path.dirname(edgegraph.__file__)))
    if got != want:
        print(
            f"INCONCLUSIVE reason=edgegraph imported from {got}, expected {want}"
        )
        sys.exit(EXIT_INCONCLUSIVE)


def stable_hash(obj) -> str:
    return hashlib.sha1(
        json.dumps(obj, sort_keys=True, default=repr).encode()
    ).hexdigest()[:16]


class InjectedFault(Exception):
    """Raised by armed callbacks (fault injection)."""


class Ctx:
    """One check run."""

    def __init__(self, prop: str, tier: str, seed: int, level: str = "exploration"):
        self.prop = prop
        self.tier = tier
        self.seed = seed
        self.level = level
        self.t0 = time.time()
        self.counters: collections.Counter = collections.Counter()
        self.evaluations = 0
        self.distinct: set = set()
        self.samples: list = []
        self.max_samples = 6
        self.violations: dict[str, dict] = {}  # mechanism -> record
        self.extra: dict = {}
        self.assumptions: list[str] = []
        self.reach: dict = {}
        self.replay_mode = False
        self.shard, self.nshards = 0, 1
        self.budget_s: float | None = None
        self.scale = 1.0  # < 1 for the reduced companion run under `python -O`

    def n(self, x) -> int:
        """Workload size scaled for this run."""
        return max(1, int(round(x * self.scale)))

    # ---- counting -------------------------------------------------------
    def count(self, key: str, n: int = 1):
        self.counters[key] += n

    def evaluated(self, n: int = 1):
        self.evaluations += n

    def nontrivial(self, case):
        """Record a distinct non-trivial case (hashable or JSON-able)."""
        if isinstance(case, str):
            self.distinct.add(case)
        else:
            self.distinct.add(stable_hash(case))

    def sample(self, case):
        if len(self.samples) < self.max_samples:
            self.samples.append(case)

    def elapsed(self) -> float:
        return time.time() - self.t0

    def out_of_time(self) -> bool:
        return self.budget_s is not None and self.elapsed() > self.budget_s

    # ---- violations -----------------------------------------------------
    def violation(self, mechanism: str, what: str, case: dict):
        """
        Record a violation.  `mechanism` is a rule-derived tag (never a seed or
        a hash); `case` is a self-contained replay description.
        The smallest witness per mechanism is kept.
        """
        self.count("violations_seen")
        if sys.flags.optimize and isinstance(case, dict):
            # seen by a run under `python -O` (assert statements and `if __debug__:` blocks compiled away):
            # the replay has to run the same way
            case = dict(case, python_O=True)
            what += " [interpreter running with -O]"
        size = len(json.dumps(case, default=repr))
        old = self.violations.get(mechanism)
        if old is None or size < old["size"]:
            self.violations[mechanism] = {
                "mechanism": mechanism,
                "what": what,
                "case": case,
                "size": size,
                "count": (old["count"] if old else 0) + 1,
            }
        else:
            old["count"] += 1

    def has_violation(self, mechanism: str) -> bool:
        return mechanism in self.violations

    def should_shrink(self, mechanism: str, times: int = 3) -> bool:
        """Shrinking is expensive: only the first few witnesses per mechanism are minimised."""
        rec = self.violations.get(mechanism)
        return rec is None or rec["count"] < times

    # ---- sharding -------------------------------------------------------
    def dump_state(self) -> dict:
        return {
            "counters": dict(self.counters),
            "evaluations": self.evaluations,
            "distinct": sorted(self.distinct),
            "samples": self.samples,
            "violations": self.violations,
            "extra": self.extra,
            "reach": self.reach,
        }

    def merge_state(self, st: dict):
        self.counters.update(st["counters"])
        self.evaluations += st["evaluations"]
        self.distinct.update(st["distinct"])
        for s in st["samples"]:
            self.sample(s)
        for mech, rec in st["violations"].items():
            old = self.violations.get(mech)
            if old is None:
                self.violations[mech] = rec
            else:
                cnt = old["count"] + rec["count"]
                if rec["size"] < old["size"]:
                    self.violations[mech] = rec
                self.violations[mech]["count"] = cnt
        for k, v in st.get("extra", {}).items():
            if isinstance(v, (int, float)) and isinstance(self.extra.get(k), (int, float)):
                self.extra[k] += v
            elif isinstance(v, dict) and isinstance(self.extra.get(k), dict):
                for kk, vv in v.items():
                    if isinstance(vv, (int, float)) and isinstance(self.extra[k].get(kk), (int, float)):
                        self.extra[k][kk] += vv
                    else:
                        self.extra[k].setdefault(kk, vv)
            else:
                self.extra.setdefault(k, v)
        for fn, rec in st.get("reach", {}).items():
            cur = self.reach.setdefault(fn, {"executed": [], "of": rec.get("of", 0)})
            cur["executed"] = sorted(set(cur["executed"]) | set(rec.get("executed", [])))

    # ---- finishing ------------------------------------------------------
    def finish(self, rule: str, floors: dict[str, int] | None = None, exhaustive=False) -> int:
        known = load_known()
        open_known = [
            k for k in known if k["property"] == self.prop and k["status"] == "open"
        ]
        lines = []
        unknown = []
        known_hit = []
        for mech, rec in sorted(self.violations.items()):
            match = None
            for k in open_known:
                if mech == k["mechanism"] or mech.startswith(k["mechanism"] + ":"):
                    match = k
                    break
            if match:
                known_hit.append((match, rec))
            else:
                unknown.append(rec)

        os.makedirs(os.path.join(VERIF_DIR, "replays"), exist_ok=True)
        for match, rec in known_hit:
            lines.append(
                f"KNOWN-FINDING: property={self.prop} {match['what_fails']} "
                f"[mechanism={rec['mechanism']} seen={rec['count']}x]"
            )
        for n, rec in enumerate(unknown):
            path = self._write_replay(rec)
            if n < 12:
                lines.append(f"VIOLATION property={self.prop} replay={path}")
                lines.append(f"  mechanism={rec['mechanism']} seen={rec['count']}x")
                lines.append(f"  {rec['what'][:1500]}")
        if len(unknown) > 12:
            lines.append(f"  ... and {len(unknown) - 12} more mechanisms (replays written)")

        # floors -> inconclusive
        missing = []
        for key, need in (floors or {}).items():
            have = self.counters.get(key, 0) if key != "evaluations" else self.evaluations
            if have < need:
                missing.append(f"{key}={have}<{need}")
        if self.counters.get("__shards_failed"):
            missing.append(f"shards_failed={self.counters['__shards_failed']}")
        if len(self.distinct) < 2:
            missing.append(f"distinct_nontrivial={len(self.distinct)}<2")
        if self.evaluations < 1:
            missing.append("evaluations=0")

        if unknown:
            code = EXIT_VIOLATION
        elif missing and not self.replay_mode:
            code = EXIT_INCONCLUSIVE
            lines.append(
                f"INCONCLUSIVE property={self.prop} reason=coverage floor missed: "
                + ", ".join(missing)
            )
        else:
            code = EXIT_HELD

        if not self.replay_mode and not os.environ.get("EGVERIF_NO_EVIDENCE"):
            self._write_evidence(rule, floors or {}, known_hit, unknown, code, exhaustive)
        for ln in lines:
            print(ln)
        verdict = {0: "HELD", 1: "VIOLATED", 2: "INCONCLUSIVE"}[code]
        print(
            f"{verdict} property={self.prop} tier={self.tier} seed={self.seed} "
            f"evaluations={self.evaluations} distinct_nontrivial={len(self.distinct)} "
            f"wall_s={self.elapsed():.1f}"
        )
        return code

    def _write_replay(self, rec) -> str:
        safe = "".join(c if c.isalnum() or c in "-_." else "_" for c in rec["mechanism"])[:80]
        path = os.path.join(VERIF_DIR, "replays", f"{self.prop}-{safe}.json")
        with open(path, "w") as fp:
            json.dump(
                {
                    "property": self.prop,
                    "mechanism": rec["mechanism"],
                    "what": rec["what"],
                    "seed": self.seed,
                    "tier": self.tier,
                    "case": rec["case"],
                },
                fp,
                indent=1,
                default=repr,
            )
        return path

    def _write_evidence(self, rule, floors, known_hit, unknown, code, exhaustive):
        cov = {
            "evaluations": int(self.evaluations),
            "distinct_nontrivial": len(self.distinct),
            "rule": rule,
            "samples": self.samples,
            "counters": {k: int(v) for k, v in sorted(self.counters.items())},
            "floors": floors,
            "known_findings_hit": [
                {"mechanism": r["mechanism"], "seen": r["count"]} for _, r in known_hit
            ],
            "unlisted_violations": [
                {"mechanism": r["mechanism"], "seen": r["count"], "what": r["what"]}
                for r in unknown
            ],
            "verdict": {0: "held", 1: "violated", 2: "inconclusive"}[code],
        }
        if exhaustive:
            cov["exhaustive"] = True
        cov.update(self.extra)
        if self.reach:
            cov["anchored_lines_executed"] = self.reach
        ev = {
            "property_id": self.prop,
            "tier": self.tier,
            "seed": int(self.seed),
            "level": self.level,
            "coverage": cov,
            "assumptions": self.assumptions,
            "wall_s": round(self.elapsed(), 2),
            "violations": len(unknown),
        }
        os.makedirs(os.path.join(VERIF_DIR, "evidence"), exist_ok=True)
        path = os.path.join(VERIF_DIR, "evidence", f"{self.prop}.json")
        tmp = path + ".tmp"
        with open(tmp, "w") as fp:
            json.dump(ev, fp, indent=1, default=repr)
            fp.write("\n")
        os.replace(tmp, path)


def load_known() -> list[dict]:
    try:
        with open(KNOWN_FINDINGS) as fp:
            return json.load(fp)["findings"]
    except FileNotFoundError:
        return []


def ddmin(items: list, fails, max_probes: int = 400) -> list:
    """
    Delta debugging: smallest sub-list (order kept) for which fails(sub) is
    true.  `fails` must be deterministic.  Bounded number of probes.
    """
    probes = 0
    n = 2
    cur = list(items)
    while len(cur) >= 2 and probes < max_probes:
        chunk = max(1, len(cur) // n)
        subsets = [cur[i : i + chunk] for i in range(0, len(cur), chunk)]
        reduced = False
        for i in range(len(subsets)):
            comp = [x for j, s in enumerate(subsets) if j != i for x in s]
            probes += 1
            if comp and fails(comp):
                cur = comp
                n = max(n - 1, 2)
                reduced = True
                break
        if not reduced:
            if chunk == 1:
                break
            n = min(len(cur), n * 2)
    return cur
