"""
Logical-step monitor for nrpickler.dump: "serialisation succeeds" is refuted by a dump that never ends, and a
wall-clock deadline is no verdict.  The pickler's drain loop calls its `realsave` for every queued object; a
long-lived object (class, function, closure cell) whose by-value save is *started* again and again although it
never reaches the memo is an expansion that cannot terminate.  Legitimate re-entries (an immutable container
on a cycle through itself) start an object at most a handful of times.
"""

from __future__ import annotations

import types

LIMIT = 300
STATS = {"installed": False, "starts_observed": 0, "max_starts_of_one_object": 0}


class Diverged(Exception):
    pass


def install():
    from edgegraph.output import nrpickler

    P = getattr(nrpickler, "_NonrecursivePickler", None)
    orig = getattr(P, "realsave", None)
    if P is None or orig is None or getattr(orig, "_egv", False):
        return STATS["installed"]

    def realsave(self, obj, *a, **k):
        if isinstance(obj, (type, types.FunctionType, types.CellType)) and id(obj) not in self.memo:
            c = self.__dict__.setdefault("_egv_starts", {})
            n = c[id(obj)] = c.get(id(obj), 0) + 1
            STATS["starts_observed"] += 1
            if n > STATS["max_starts_of_one_object"]:
                STATS["max_starts_of_one_object"] = n
            if n > LIMIT:
                raise Diverged(f"{obj!r} was started {n} times without ever being memoized")
        return orig(self, obj, *a, **k)

    realsave._egv = True
    P.realsave = realsave
    STATS["installed"] = True
    return True
