"""
E9: reach evidence via sys.monitoring (Python 3.12+).

LINE events are enabled *locally* on the code objects of every function defined
in the repository files a property is anchored in; the callback records the
line and returns DISABLE, so each line costs one callback in the whole run.
The result (executed lines per function) goes into the evidence file so a
reader can see that the anchored mechanism was actually driven.  It is evidence
only: no verdict and no floor depends on it.
"""

from __future__ import annotations

import importlib
import json
import os
import sys
import types

from egverif import common

TOOL_ID = 3


def anchored_files(prop: str) -> list[str]:
    path = os.path.join(common.VERIF_DIR, "properties.jsonl")
    with open(path) as fp:
        for line in fp:
            p = json.loads(line)
            if p["id"] == prop:
                return list(p["anchors"]["files"])
    return []


def _code_objects(mod):
    """All code objects of functions/methods defined in module `mod` (nested ones too)."""
    seen = {}

    def walk(code):
        if code in seen:
            return
        seen[code] = True
        for c in code.co_consts:
            if isinstance(c, types.CodeType):
                walk(c)

    fname = getattr(mod, "__file__", None)
    for obj in list(vars(mod).values()):
        objs = [obj]
        if isinstance(obj, type) and getattr(obj, "__module__", None) == mod.__name__:
            objs = list(vars(obj).values())
        for o in objs:
            f = o
            if isinstance(o, property):
                for g in (o.fget, o.fset, o.fdel):
                    if g is not None and getattr(g, "__code__", None) is not None and g.__code__.co_filename == fname:
                        walk(g.__code__)
                continue
            if isinstance(o, (classmethod, staticmethod)):
                f = o.__func__
            code = getattr(f, "__code__", None)
            if code is not None and code.co_filename == fname:
                walk(code)
    return list(seen)


class Reach:
    def __init__(self, prop: str):
        self.prop = prop
        self.hits: dict[tuple[str, str], set[int]] = {}
        self.codes = []
        self.active = False

    def __enter__(self):
        mon = getattr(sys, "monitoring", None)
        if mon is None:
            return self
        repo = common.repo_dir()
        for rel in anchored_files(self.prop):
            modname = rel[:-3].replace("/", ".")
            try:
                mod = importlib.import_module(modname)
            except Exception:  # noqa: BLE001
                continue
            for code in _code_objects(mod):
                self.codes.append((rel, code))
        try:
            mon.use_tool_id(TOOL_ID, "egverif-reach")
        except ValueError:
            return self
        self.active = True

        def on_line(code, line):
            key = self._keys.get(code)
            if key is not None:
                self.hits.setdefault(key, set()).add(line)
            return mon.DISABLE

        self._keys = {code: (rel, code.co_qualname) for rel, code in self.codes}
        mon.register_callback(TOOL_ID, mon.events.LINE, on_line)
        for _, code in self.codes:
            mon.set_local_events(TOOL_ID, code, mon.events.LINE)
        return self

    def __exit__(self, *exc):
        if self.active:
            mon = sys.monitoring
            for _, code in self.codes:
                mon.set_local_events(TOOL_ID, code, 0)
            mon.register_callback(TOOL_ID, mon.events.LINE, None)
            mon.free_tool_id(TOOL_ID)
        return False

    def summary(self) -> dict:
        out = {}
        for rel, code in self.codes:
            if code.co_qualname.startswith("<"):
                continue
            lines = sorted({ln for _, _, ln in code.co_lines() if ln is not None and ln != code.co_firstlineno})
            got = sorted(self.hits.get((rel, code.co_qualname), ()))
            out[f"{rel}:{code.co_qualname}"] = {"executed": got, "of": len(lines)}
        return out
