"""
Graph specifications (JSON-able), builder and generators.

spec = {
  "verts": [class-name, ...],                   # index = idx attribute
  "edges": [[class-name, i, j, tag], ...],      # created in this order
  "uni":   [i, ...] | None,                     # universe members in order
  "attrs": {"<i>": {name: value}},              # optional extra attributes
  "extra": [[k, i], ...],                       # edge k additionally lists vertex i (not one of its ends)
  "edges_gone": [[cls, i, j, "l"|"v"|"s", pos]], # former links (i != j), created at creation position pos, removed again
  "vunis": {"<i>": [k, ...]},                   # vertex i also lives in auxiliary universes k (0..2)
  "link_unis": [[k, "aux"|"own"], ...],          # edge k was filed under another universe / the graph's own one
  "half": [[k, 0|1], ...],                      # edge k lost that end (Vertex.remove_from_link): 1-entry end list
  "laws": {rule: bool} | None,                  # non-default (or no) laws on the universe
  "uni_gone": [[i, "u"|"v"], ...],              # non-members that were members once and left (universe / vertex side)
}
"""

from __future__ import annotations

import itertools
import random

from egverif import zoo


_ECLS = {**zoo.EDGE_CLASSES, **zoo.SPEC_ONLY_EDGE_CLASSES}
_VCLS = {**zoo.VERTEX_CLASSES, **zoo.SPEC_ONLY_VERTEX_CLASSES}


class Built:
    def __init__(self, spec):
        self.spec = spec
        self.verts = []
        self.edges = []
        self.uni = None

    def name(self, obj):
        for i, v in enumerate(self.verts):
            if v is obj:
                return f"v{i}"
        for i, e in enumerate(self.edges):
            if e is obj:
                return f"e{i}"
        if obj is self.uni and obj is not None:
            return "U"
        if obj is None:
            return None
        return f"?{type(obj).__name__}"

    def names(self, seq):
        return [self.name(x) for x in seq]


def build(spec) -> Built:
    g = Built(spec)
    attrs = spec.get("attrs") or {}
    uids = spec.get("uids") or {}
    for i, cname in enumerate(spec["verts"]):
        a = {"idx": i}
        a.update(attrs.get(str(i), {}))
        if cname == "EqVertex":
            a.setdefault("key", "twin")
        if cname == "VNamed":
            a.setdefault("name", f"n{i}")
        kw = {"attributes": a}
        if str(i) in uids:
            kw["uid"] = uids[str(i)]  # uids are user-assignable and nothing makes them unique
        g.verts.append(_VCLS[cname](**kw))
    for i, v in enumerate(g.verts):
        if isinstance(v, zoo.ClusterVertex):
            # a vertex that is also an iterable of (other) vertices
            v.members = [g.verts[(i + 1) % len(g.verts)], g.verts[(i + 2) % len(g.verts)]]
    for k, ed in enumerate(spec["edges"]):
        cname, i, j = ed[0], ed[1], ed[2]
        tag = ed[3] if len(ed) > 3 else k
        e = _ECLS[cname](
            g.verts[i], g.verts[j], attributes={"tag": tag, "eidx": k}
        )
        g.edges.append(e)
    # former links: created in between the others (position pos in creation order) and taken away again once all
    # links exist, through one of the public removal paths; the final graph is exactly spec["edges"]
    gone = sorted(spec.get("edges_gone") or [], key=lambda x: -x[4])
    if gone:
        ghosts = []
        final = list(g.edges)
        for e in final:
            for v in {id(x): x for x in e.vertices if x is not None}.values():
                v.remove_from_link(e)
        # rebuild in the interleaved order so that every vertex's link list saw the ghosts come and go
        order = [("real", k) for k in range(len(spec["edges"]))]
        for gi, (cname, i, j, path, pos) in enumerate(gone):
            order.insert(min(pos, len(order)), ("ghost", gi))
        g.edges = [None] * len(spec["edges"])
        for kind, k in order:
            if kind == "real":
                ed = spec["edges"][k]
                tag = ed[3] if len(ed) > 3 else k
                g.edges[k] = _ECLS[ed[0]](g.verts[ed[1]], g.verts[ed[2]], attributes={"tag": tag, "eidx": k})
            else:
                cname, i, j, path, pos = gone[k]
                ghosts.append((_ECLS[cname](g.verts[i], g.verts[j], attributes={"tag": 0, "eidx": -1 - k}), path))
        for e, path in ghosts:
            a, b = e.v1, e.v2
            if path == "s" and not isinstance(e, zoo.TwoEndedLink):
                path = "l"  # a link class of the user's own: no assignable ends
            if path == "l":
                e.unlink_from(a)
                e.unlink_from(b)
            elif path == "v":
                a.remove_from_link(e)
                b.remove_from_link(e)
            else:
                e.v1 = None
                e.v2 = None
    for k, i in spec.get("extra") or []:
        # a two-ended link that also lists a further vertex (Link.add_vertex): its ends stay v1 / v2
        if k < len(g.edges):
            g.edges[k].add_vertex(g.verts[i])
    if spec.get("link_unis"):
        # links are BaseObjects too: they can be filed under universes (Link.add_to_universe only annotates the
        # link).  Which universes a link appears in says nothing about which vertices it joins.
        g.aux_uni = zoo.Universe()
        g.link_unis = list(spec["link_unis"])
    for k, which in spec.get("half") or []:
        # an edge that LOST one end through the public API (the vertex let go of it): its end list has one entry
        if k < len(g.edges) and len(g.edges[k].vertices) == 2 and g.edges[k].vertices[0] is not g.edges[k].vertices[1]:
            g.edges[k].vertices[which].remove_from_link(g.edges[k])
    if spec.get("uni") is not None:
        g.uni = zoo.FalsyUniverse() if spec.get("uni_cls") == "FalsyUniverse" else zoo.Universe()
        if "laws" in spec:
            # laws are declarative: whatever they say, the universe holds the graph it holds
            g.uni.laws = None if spec["laws"] is None else zoo.UniverseLaws(**spec["laws"])
        # former members: they joined first and left again (from the universe's or from their own side) once
        # everybody was in; the final membership and its order are exactly spec["uni"]
        gone = [x for x in (spec.get("uni_gone") or []) if x[0] not in spec["uni"] and x[0] < len(g.verts)]
        for i, _side in gone:
            g.uni.add_vertex(g.verts[i])
        for i in spec["uni"]:
            g.uni.add_vertex(g.verts[i])
        for i, side in gone:
            if side == "v":
                g.verts[i].remove_from_universe(g.uni)
            else:
                g.uni.remove_vertex(g.verts[i])
    if spec.get("vunis"):
        # further universes some vertices live in (a vertex may be in any number of universes; which ones says
        # nothing about what it is linked to)
        g.xunis = [zoo.Universe() for _ in range(3)]
        for i, ks in spec["vunis"].items():
            for k in ks:
                if int(i) < len(g.verts):
                    g.xunis[k % 3].add_vertex(g.verts[int(i)])
    for k, which in getattr(g, "link_unis", []):
        if k < len(g.edges):
            target = g.uni if (which == "own" and g.uni is not None) else g.aux_uni
            if not any(u is target for u in g.edges[k].universes):
                g.edges[k].add_to_universe(target)
    return g


VCLS_PLAIN = ["Vertex"]
VCLS_MIX = ["Vertex", "Vertex", "VSub", "VSubSub", "FalsyVertex", "EmptyVertex", "Universe", "VBoth", "VFancy", "StrVertex", "VSlots", "VCallable", "VCustomState", "VCachingOn"]
ECLS_DU = ["DirectedEdge", "UnDirectedEdge", "DSub", "DSubSub", "USub", "MixEdge", "FalsyEdge", "RenamedEdge", "PosOnlyEdge"]
ECLS_ALL = ECLS_DU + ["OtherLink", "OtherLink2", "TwoEndedLink"]
# + a two-ended link built directly on Link, and a second unknown class that is also called OtherLink
ECLS_X = ECLS_ALL + ["DuckLink", "OtherLink~", "AbcEdge", "AbcUEdge"]
# + classes sharing their __name__ with another class, and a class with callable instances
VCLS_X = VCLS_MIX + ["Vertex~", "VSub~", "VDirLess", "VRecord", "ClusterVertex"]
# ... plus a class that files its attributes outside the instance dictionary (not for the renderers that discover
# attributes through dir(): what is in the bag is invisible to them by construction)
VCLS_XB = VCLS_X + ["VBag"]


def features(spec) -> set:
    f = set()
    pairs = {}
    kinds_at = {}
    for ed in spec["edges"]:
        c, i, j = ed[0], ed[1], ed[2]
        k = "D" if c in zoo.DIRECTED_NAMES else "U" if c in zoo.UNDIRECTED_NAMES else "O"
        if i == j:
            f.add("selfloop")
        key = (min(i, j), max(i, j))
        pairs.setdefault(key, []).append((i, j, k))
        kinds_at.setdefault(i, set()).add(k)
        kinds_at.setdefault(j, set()).add(k)
        if k == "O":
            f.add("unknown_kind")
    for key, lst in pairs.items():
        if len(lst) > 1:
            f.add("parallel")
            if any(a[:2] != b[:2] for a in lst for b in lst):
                f.add("antiparallel")
    if any(len(s) > 1 for s in kinds_at.values()):
        f.add("mixed_kinds")
    if spec.get("uni") is not None:
        members = set(spec["uni"])
        if len(members) < len(spec["verts"]):
            f.add("partial_universe")
        for ed in spec["edges"]:
            if (ed[1] in members) != (ed[2] in members):
                f.add("bridge_out_of_universe")
        if spec.get("uni_gone"):
            f.add("former_members")
    if spec.get("edges_gone"):
        f.add("former_links")
    if spec.get("link_unis"):
        f.add("links_filed_under_universes")
    if spec.get("vunis"):
        f.add("vertices_in_further_universes")
    if spec.get("uni") is not None and "laws" in spec:
        f.add("non_default_laws")
    return f


def rand_spec(rng: random.Random, nmax=6, mmax=12, vcls=VCLS_MIX, ecls=ECLS_ALL,
              uni_mode="rand", self_p=0.12):
    n = rng.randint(1, nmax)
    m = rng.randint(0, mmax)
    verts = [rng.choice(vcls) for _ in range(n)]
    edges = []
    for k in range(m):
        i = rng.randrange(n)
        j = i if rng.random() < self_p else rng.randrange(n)
        if edges and rng.random() < 0.2:
            # parallel / antiparallel to an existing one
            e0 = rng.choice(edges)
            i, j = (e0[1], e0[2]) if rng.random() < 0.5 else (e0[2], e0[1])
        edges.append([rng.choice(ecls), i, j, rng.randrange(6)])
    uni = _rand_uni(rng, n, uni_mode)
    spec = {"verts": verts, "edges": edges, "uni": uni}
    if n >= 2 and rng.random() < 0.3:
        gone = []
        for _ in range(rng.randint(1, 3)):
            i = rng.randrange(n)
            j = rng.choice([x for x in range(n) if x != i])
            if edges and rng.random() < 0.5:
                e0 = rng.choice(edges)
                if e0[1] != e0[2]:
                    i, j = e0[1], e0[2]  # parallel to a link that stays
            gone.append([rng.choice(ecls), i, j, rng.choice("lvs"), rng.randint(0, m)])
        spec["edges_gone"] = gone
    if uni is not None and rng.random() < 0.25:
        spec["uni_cls"] = "FalsyUniverse"
    if uni is not None and rng.random() < 0.3:
        spec["laws"] = None if rng.random() < 0.15 else {k: rng.random() < 0.5 for k in ("mixed_links", "cycles", "multipath", "multiverse")}
    if rng.random() < 0.2:
        spec["vunis"] = {str(i): rng.sample(range(3), rng.randint(1, 2)) for i in range(n) if rng.random() < 0.8}
    if edges and rng.random() < 0.15:
        spec["link_unis"] = [[rng.randrange(len(edges)), rng.choice(["aux", "aux", "own"])] for _ in range(rng.randint(1, 3))]
    if uni is not None and len(set(uni)) < n and rng.random() < 0.4:
        spec["uni_gone"] = [[i, rng.choice("uv")] for i in range(n) if i not in uni and rng.random() < 0.7]
    if rng.random() < 0.25:
        # distinct vertices sharing a uid (two loads of one pickle, record ids reused as uids, ...)
        spec["uids"] = {str(i): rng.randint(1, 2) for i in range(n) if rng.random() < 0.7}
    return spec


def _rand_uni(rng, n, mode):
    if mode == "none":
        return None
    if mode == "all":
        return list(range(n))
    r = rng.random()
    if r < 0.3:
        return None
    if r < 0.6:
        return list(range(n))
    members = [i for i in range(n) if rng.random() < 0.7]
    rng.shuffle(members)
    return members


def family_specs(rng: random.Random, sizes=(4, 7, 12), ecls=ECLS_DU, vcls=VCLS_PLAIN):
    """Order-sensitive and classic shapes."""
    out = []

    def E(i, j):
        return [rng.choice(ecls), i, j, rng.randrange(6)]

    for n in sizes:
        V = [rng.choice(vcls) for _ in range(n)]
        # chain
        out.append({"verts": V, "edges": [E(i, i + 1) for i in range(n - 1)], "uni": None})
        # cycle
        out.append({"verts": V, "edges": [E(i, (i + 1) % n) for i in range(n)], "uni": list(range(n))})
        # star
        out.append({"verts": V, "edges": [E(0, i) for i in range(1, n)], "uni": None})
        # reverse star creation order
        out.append({"verts": V, "edges": [E(0, i) for i in range(n - 1, 0, -1)], "uni": None})
        # complete
        if n <= 7:
            out.append({"verts": V, "edges": [E(i, j) for i in range(n) for j in range(n) if i != j], "uni": None})
        # ladder / diamonds
        ed = []
        for i in range(0, n - 2, 2):
            ed += [E(i, i + 1), E(i, i + 2), E(i + 1, i + 2)]
            if i + 3 < n:
                ed += [E(i + 1, i + 3)]
        out.append({"verts": V, "edges": ed, "uni": None})
        # diamond with shortcut to different depths
        if n >= 4:
            ed = [E(0, 1), E(1, 2), E(2, 3), E(0, 3), E(0, 2)]
            rng.shuffle(ed)
            out.append({"verts": V, "edges": ed, "uni": None})
        # binary tree
        out.append({"verts": V, "edges": [E((i - 1) // 2, i) for i in range(1, n)], "uni": None})
        # two components
        h = n // 2
        out.append({"verts": V, "edges": [E(i, i + 1) for i in range(h - 1)] + [E(i, i + 1) for i in range(h, n - 1)], "uni": None})
        # universe cuts the graph in the middle
        cut = [i for i in range(n) if i != n // 2]
        out.append({"verts": V, "edges": [E(i, i + 1) for i in range(n - 1)] + [E(0, n - 1)], "uni": cut})
        # ... and the vertex in the middle was a member until it left from its own / from the universe's side
        for side in "vu":
            out.append({"verts": V, "edges": [E(i, i + 1) for i in range(n - 1)] + [E(0, n - 1)], "uni": cut,
                        "uni_gone": [[n // 2, side]]})
    return out


def hub_specs(rng: random.Random, fanouts=(127, 128, 129, 200, 300), ecls=ECLS_DU):
    """
    High-degree hubs (degree thresholds 128/129, 256/257): a hub with `f` children created in a scrambled
    order, every child pointing to a shared grandchild, some parallel edges, plus a second hub below.
    """
    out = []
    for f in fanouts:
        order = list(range(1, f + 1))
        rng.shuffle(order)
        edges = [[rng.choice(ecls), 0, c, c % 6] for c in order]
        edges += [[rng.choice(ecls), 0, order[0], 1], [rng.choice(ecls), 0, order[-1], 2]]  # parallel edges
        g = f + 1
        edges += [[rng.choice(ecls), c, g, c % 6] for c in order[: f // 2]]
        edges += [[rng.choice(ecls), g, c, 0] for c in order[f // 2:]]
        out.append({"verts": ["Vertex"] * (f + 2), "edges": edges, "uni": None})
        out.append({"verts": ["Vertex"] * (f + 2), "edges": edges, "uni": [i for i in range(f + 2) if i % 5 != 3]})
    return out


def all_digraphs(n: int, ecls="DirectedEdge", with_loops=True):
    """Every directed graph on n vertices (each ordered pair present or not)."""
    pairs = [(i, j) for i in range(n) for j in range(n) if with_loops or i != j]
    for mask in range(1 << len(pairs)):
        edges = [[ecls, i, j, k] for k, (i, j) in enumerate(pairs) if mask >> k & 1]
        yield {"verts": ["Vertex"] * n, "edges": edges, "uni": None}


def all_small_mixed(n: int, kinds=("DirectedEdge", "UnDirectedEdge")):
    """Every assignment of {absent} + kinds to each ordered pair i<=j / i>j."""
    pairs = [(i, j) for i in range(n) for j in range(n)]
    for combo in itertools.product(range(len(kinds) + 1), repeat=len(pairs)):
        edges = []
        for k, (c, (i, j)) in enumerate(zip(combo, pairs)):
            if c:
                edges.append([kinds[c - 1], i, j, k])
        yield {"verts": ["Vertex"] * n, "edges": edges, "uni": None}
