"""
Classes that cannot be imported by name (defined inside a function, as classes defined in a script's
__main__ or in a notebook cell are for whoever loads the pickle): dill pickles them BY VALUE - the class
dict, its functions, their closure cells.  A method that uses super() carries a __class__ cell that refers
back to the class, so the class is a self-referential object whose cycle runs through reduce arguments.
"""

from __future__ import annotations

from edgegraph.structure import DirectedEdge, UnDirectedEdge, Universe, Vertex


def make():
    class LPlain(Vertex):
        kind = "local-plain"

        def egv_probe(self):
            return ["plain", self.kind]

    class LSuper(Vertex):
        kind = "local-super"

        def __init__(self, **kw):
            super().__init__(**kw)
            self.made_by = "LSuper.__init__"

        def add_to_universe(self, universe):
            return super().add_to_universe(universe)

        def egv_probe(self):
            return ["super", self.kind, self.made_by, super().__repr__() == Vertex.__repr__(self)]

    class LChild(LSuper):
        def egv_probe(self):
            return ["child"] + super().egv_probe()

    class LUniverse(Universe):
        def __init__(self, **kw):
            super().__init__(**kw)

        def egv_probe(self):
            return ["uni", len(self.vertices)]

    class LEdge(DirectedEdge):
        def __init__(self, a=None, b=None, **kw):
            super().__init__(a, b, **kw)

        def egv_probe(self):
            return ["edge", super().v1 is self.v1]

    class LUEdge(UnDirectedEdge):
        pass

    def recursive_closure():
        def down(x):
            return down(x - 1) + 1 if x else 0

        return down

    return {"LPlain": LPlain, "LSuper": LSuper, "LChild": LChild, "LUniverse": LUniverse, "LEdge": LEdge,
            "LUEdge": LUEdge, "down": recursive_closure()}


def closures_into(target, shared):
    """By-value functions whose closures refer INTO the graph, to one list twice, and to a cyclic helper."""
    helper = {"list": shared}
    helper["self"] = helper

    def peek():
        return (target.idx, shared, helper["list"] is shared)

    def two_lists(extra=shared, again=target):
        # `again` reaches the vertex through the defaults tuple, not through the (shared) closure cell
        return (shared, extra, target, again)

    return peek, two_lists


def build_chain(n, vcls_name="Vertex"):
    """
    A chain whose FIRST vertex received, through attributes= (so they precede its links in its __dict__), two
    by-value functions that refer to a vertex far down the chain: the functions are written before that vertex.
    """
    c = make()
    vcls = c.get(vcls_name, Vertex)
    vs = [vcls(attributes={"idx": i}) for i in range(1, n)]
    es = [DirectedEdge(vs[i], vs[i + 1], attributes={"tag": i}) for i in range(len(vs) - 1)]
    shared = [7, 9]
    peek, two = closures_into(vs[len(vs) // 2], shared)
    head = vcls(attributes={"cb": peek, "cb2": two, "picked": shared, "idx": 0})
    es.append(DirectedEdge(head, vs[0], attributes={"tag": n}))
    vs[-1].cb = peek
    return [head] + vs + es


def build(variant, n=6):
    """A small graph over by-value classes.  variant picks which of them take part."""
    if variant.startswith("chain"):
        _, size, vcls_name = variant.split(":")
        return build_chain(int(size), vcls_name)
    c = make()
    vcls = {"plain": [c["LPlain"]], "super": [c["LSuper"]], "child": [c["LChild"], c["LSuper"]],
            "mixed": [c["LPlain"], c["LSuper"], c["LChild"], Vertex]}[variant.split("+")[0]]
    vs = [vcls[i % len(vcls)](attributes={"idx": i}) for i in range(n)]
    ecls = [c["LEdge"], c["LUEdge"], DirectedEdge] if "edges" in variant else [DirectedEdge, UnDirectedEdge]
    es = [ecls[i % len(ecls)](vs[i], vs[(i + 1) % n], attributes={"tag": i}) for i in range(n)]
    es.append(ecls[0](vs[0], vs[0], attributes={"tag": n}))
    objs = vs + es
    if "uni" in variant:
        objs.append(c["LUniverse"](vertices=vs[: n - 1]))
    else:
        objs.append(Universe(vertices=vs[: n - 1]))
    if "closure" in variant:
        vs[0].fn = c["down"]
        vs[-1].fn = c["down"]
    return objs
