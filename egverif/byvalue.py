"""
Classes that cannot be imported by name (defined inside a function, as classes defined in a script's
__main__ or in a notebook cell are for whoever loads the pickle): dill pickles them BY VALUE - the class
dict, its functions, their closure cells.  A method that uses super() carries a __class__ cell that refers
back to the class, so the class is a self-referential object whose cycle runs through reduce arguments.
"""

from __future__ import annotations

from edgegraph.structure import DirectedEdge, UnDirectedEdge, Universe, Vertex


def make():
    class LPlain(Vertex):
        kind = "local-plain"

        def egv_probe(self):
            return ["plain", self.kind]

    class LSuper(Vertex):
        kind = "local-super"

        def __init__(self, **kw):
            super().__init__(**kw)
            self.made_by = "LSuper.__init__"

        def add_to_universe(self, universe):
            return super().add_to_universe(universe)

        def egv_probe(self):
            return ["super", self.kind, self.made_by, super().__repr__() == Vertex.__repr__(self)]

    class LChild(LSuper):
        def egv_probe(self):
            return ["child"] + super().egv_probe()

    class LUniverse(Universe):
        def __init__(self, **kw):
            super().__init__(**kw)

        def egv_probe(self):
            return ["uni", len(self.vertices)]

    class LEdge(DirectedEdge):
        def __init__(self, a=None, b=None, **kw):
            super().__init__(a, b, **kw)

        def egv_probe(self):
            return ["edge", super().v1 is self.v1]

    class LUEdge(UnDirectedEdge):
        pass

    def recursive_closure():
        def down(x):
            return down(x - 1) + 1 if x else 0

        return down

    return {"LPlain": LPlain, "LSuper": LSuper, "LChild": LChild, "LUniverse": LUniverse, "LEdge": LEdge,
            "LUEdge": LUEdge, "down": recursive_closure()}


def build(variant, n=6):
    """A small graph over by-value classes.  variant picks which of them take part."""
    c = make()
    vcls = {"plain": [c["LPlain"]], "super": [c["LSuper"]], "child": [c["LChild"], c["LSuper"]],
            "mixed": [c["LPlain"], c["LSuper"], c["LChild"], Vertex]}[variant.split("+")[0]]
    vs = [vcls[i % len(vcls)](attributes={"idx": i}) for i in range(n)]
    ecls = [c["LEdge"], c["LUEdge"], DirectedEdge] if "edges" in variant else [DirectedEdge, UnDirectedEdge]
    es = [ecls[i % len(ecls)](vs[i], vs[(i + 1) % n], attributes={"tag": i}) for i in range(n)]
    es.append(ecls[0](vs[0], vs[0], attributes={"tag": n}))
    objs = vs + es
    if "uni" in variant:
        objs.append(c["LUniverse"](vertices=vs[: n - 1]))
    else:
        objs.append(Universe(vertices=vs[: n - 1]))
    if "closure" in variant:
        vs[0].fn = c["down"]
        vs[-1].fn = c["down"]
    return objs
