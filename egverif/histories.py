"""
History engine shared by C01 / C02 / C03 / C19: executes ops on the real
library (driver) and on the reference model in lock step, and evaluates the
requested monitors after every op (a client-call boundary = quiescent point).
"""

from __future__ import annotations

import itertools
import random

from edgegraph.structure import Vertex

from egverif import driver, gen, observe
from egverif.common import ddmin
from egverif.model import Model


class Finding:
    def __init__(self, mech, what, k):
        self.mech, self.what, self.k = mech, what, k


def is_open(model: Model, op) -> bool:
    """Would the model classify this op as 'documentation leaves it open'?"""
    k = op[0]
    try:
        if k in ("setv1", "setv2"):
            l = model.L[op[1]]
            return l["cls"] not in model_two_ended() or len(l["verts"]) != 2
        if k == "l_add_vertex":
            return op[2] is None or op[2] in model.L[op[1]]["verts"]
        if k == "v_rm_link":
            return model.L[op[2]]["verts"].count(op[1]) > 1
        if k == "l_unlink_from":
            return op[2] is None or model.L[op[1]]["verts"].count(op[2]) > 1
        if k == "link":
            return (bool(op[5]) and not model._all_plain_at(op[2])
                    and model.first_joining_before_awkward(op[2], op[4]) is None)
        if k == "unlink":
            return not model._all_plain_at(op[1])
        if k == "other":
            return len(model.L[op[1]]["verts"]) != 2
    except KeyError:
        return False
    return False


def model_two_ended():
    from egverif.model import TWO_ENDED

    return TWO_ENDED


class Engine:
    """
    checks: subset of {"C01","C02","C03","C19"}; strict=True skips ops the
    model calls open (C03 profile).
    """

    def __init__(self, checks, strict=False, counters=None):
        self.pool = driver.Pool()
        self.checks = set(checks)
        # C01's invariant is model-free: no model is run (and none can diverge)
        self.model = Model() if self.checks & {"C02", "C03", "C19"} else None
        self.strict = strict
        self.findings: list[Finding] = []
        self.executed = []
        self.counters = counters
        self.last_snap = {}
        self.evals = 0
        self.states = set()

    def count(self, key):
        if self.counters is not None:
            self.counters[key] += 1

    def step(self, op) -> bool:
        """Returns False when the history must stop (divergence found)."""
        try:
            return self._step(op)
        except Exception as exc:  # noqa: BLE001
            # Reading the graph back through its public accessors raised INSIDE the library: the op left behind
            # an object that cannot be observed any more (e.g. a half-constructed universe that a law set
            # already points at).  Anything raised in harness frames stays a harness error (exit 2).
            tb = exc.__traceback__
            while tb.tb_next is not None:
                tb = tb.tb_next
            where = tb.tb_frame.f_code.co_filename
            if "/edgegraph/" not in where.replace("\\", "/"):
                raise
            k = len(self.executed)
            self.findings.append(Finding(f"graph_unreadable_after:{type(exc).__name__}:{op[0]}",
                                         f"op #{k} {op}: afterwards a public accessor of an object reachable from the "
                                         f"pool raised {type(exc).__name__}: {exc} ({where.rsplit('/', 1)[-1]}:{tb.tb_lineno})", k))
            return False

    def _step(self, op) -> bool:
        if op[0] == "cache":
            # the program-wide caching switch is part of the configuration a history runs under
            Vertex.NEIGHBOR_CACHING = bool(op[1])
            self.executed.append(op)
            return True
        if op[0] == "burst":
            n_before = len(self.executed)
            ok = self.step_burst(op[1])
            # keep the burst as one replayable unit
            done = self.executed[n_before:]
            del self.executed[n_before:]
            if done:
                self.executed.append(["burst", done])
            return ok
        k = len(self.executed)
        if self.strict and self.model is not None and is_open(self.model, op):
            self.count("skipped_open_ops")
            return True
        alias = gen.alias_class(self.pool, op)
        if alias == "dangling":
            return True
        pre = self.last_snap
        real = driver.execute(self.pool, op)
        if self.model is None:
            if real is driver.SKIP:
                return True
            exp = None
        else:
            exp = self.model.apply(op)
        if exp is not None and (real is driver.SKIP or exp.kind == "skip"):
            if not (real is driver.SKIP and exp.kind == "skip"):
                # pool and model disagree on which names exist: the history is unusable
                self.findings.append(Finding("harness:name_divergence", f"op #{k} {op}: real={real} model={exp}", k))
                return False
            return True
        self.executed.append(op)
        tag = f"{op[0]}:{alias}"
        self.count("op:" + tag)
        if real[0] == "exc":
            self.count("ops_raised")
        post = observe.snapshot(self.pool)
        self.last_snap = post
        self.states.add(hash(frozenset(post.items())))

        def viol(clause, what):
            self.findings.append(Finding(f"{clause}:{tag}", f"op #{k} {op} [{alias}] -> {real}: {what}", k))

        n0 = len(self.findings)
        if "C01" in self.checks:
            self.evals += 1
            for clause, what in observe.assoc_witnesses(self.pool)[:1]:
                viol(clause + (":after_raise" if real[0] == "exc" else ""), what)
        if "C02" in self.checks and n0 == len(self.findings):
            self.evals += 1
            for clause, what in observe.membership_witnesses(self.pool)[:1]:
                viol(clause, what)
            if n0 == len(self.findings) and op[0] in ("u_rm", "v_rm_uni") and exp.kind == "raise":
                if real[0] != "exc":
                    viol("nonmember_removal_did_not_raise", "removing a non-member returned normally")
                elif post != pre:
                    viol("nonmember_removal_changed_state", _diff(pre, post))
            if n0 == len(self.findings) and exp.kind != "open":
                ms = self.model.snapshot()
                for name, val in post.items():
                    if val[0] == "U" and name in ms and val[3] != ms[name][3]:
                        viol("member_order", f"{name}.vertices = {list(val[3])}, insertion order gives {list(ms[name][3])}")
                        break
                    if val[0] in ("U", "V") and name in ms and val[2] != ms[name][2]:
                        viol("universes_list", f"{name}.universes = {list(val[2])}, model has {list(ms[name][2])}")
                        break
        if "C19" in self.checks and n0 == len(self.findings):
            self.evals += 1
            for clause, what in observe.laws_witnesses(self.pool)[:1]:
                viol(clause, what)
            if n0 == len(self.findings) and op[0] in ("set_laws", "set_applies", "mku"):
                if real[0] == "exc":
                    viol(f"assignment_raised:{real[1]}", "the assignment / construction raised")
                else:
                    a = self.pool.get(op[1])
                    if op[0] == "set_laws":
                        want = None if op[2] is None else self.pool.get(op[2])
                        if a.laws is not want:
                            viol("assignment_no_effect", f"{op[1]}.laws is {self.pool.name(a.laws)} afterwards")
                    elif op[0] == "set_applies":
                        want = None if op[2] is None else self.pool.get(op[2])
                        if a.applies_to is not want:
                            viol("assignment_no_effect", f"{op[1]}.applies_to is {self.pool.name(a.applies_to)} afterwards")
            if n0 == len(self.findings) and exp.kind != "open":
                ms = self.model.snapshot()
                bad = [n for n, v in post.items() if v[0] == "W" and ms.get(n) != v] + [
                    n for n, v in post.items() if v[0] == "U" and n in ms and ms[n][4] != v[4]]
                if bad:
                    viol("frame", "binding differs from detach-previous-partners-only model: " + _diff(ms, post))
        if "C03" in self.checks and n0 == len(self.findings):
            self.evals += 1
            if exp.kind == "open":
                # not compared; resynchronise the model from the observed state is impossible in general -> stop
                self.count("open_ops_executed")
                return False
            if exp.kind == "raise":
                if real[0] != "exc":
                    viol("should_raise", f"expected {exp.exc or 'an exception'}; returned normally")
                elif exp.exc and real[1] != exp.exc:
                    viol("wrong_exception", f"expected {exp.exc}")
                elif post != pre:
                    viol("raised_but_changed_state", _diff(pre, post))
            else:
                ms = self.model.snapshot()
                if real[0] == "exc":
                    viol(f"unexpected_exception:{real[1]}", "the call is inside its documented domain")
                elif post != ms:
                    viol("effect", "observable graph differs from the reference model: " + _diff(ms, post))
                elif exp.any_of is not None:
                    if real[1] not in exp.any_of:
                        viol("return_value", f"returned {real[1]}, expected one of the joining links {exp.any_of}")
                elif op[0] in ("link", "unlink", "other") and real[1] != exp.value:
                    viol("return_value", f"returned {real[1]}, expected {exp.value}")
        return n0 == len(self.findings)


def _burst(self, ops) -> bool:
    """
    Execute `ops` back to back WITHOUT looking at anything in between (no snapshot, no aliasing classification,
    no accessor is read): lazily initialised state must not depend on having been observed.  All monitors are
    evaluated once, after the last op.
    """
    k = len(self.executed)
    self.pool.blind = True
    pre = self.last_snap
    pairs = []
    try:
        for op in ops:
            if self.strict and self.model is not None and is_open(self.model, op):
                continue
            real = driver.execute(self.pool, op)
            exp = self.model.apply(op) if self.model is not None else None
            if real is driver.SKIP or (exp is not None and exp.kind == "skip"):
                if exp is not None and not (real is driver.SKIP and exp.kind == "skip"):
                    self.findings.append(Finding("harness:name_divergence", f"burst op {op}: real={real} model={exp}", k))
                    return False
                continue
            self.executed.append(op)
            pairs.append((op, real, exp))
    finally:
        self.pool.blind = False
    if not pairs:
        return True
    driver.sync_auto_laws(self.pool)
    if self.model is not None:
        # an auto-created law set that was detached inside the burst is unreachable and never got a pool name
        for n in [n for n, w in self.model.W.items() if n.startswith("W_") and n not in self.pool.objs and w["applies"] is None]:
            del self.model.W[n]
    kinds = "+".join(op[0] for op, _, _ in pairs)
    tag = f"burst:{kinds}"
    self.count("bursts")
    self.count("op:" + tag)
    post = observe.snapshot(self.pool)
    self.last_snap = post
    self.states.add(hash(frozenset(post.items())))

    def viol(clause, what):
        self.findings.append(Finding(f"{clause}:{tag}", f"unobserved burst #{k} {[p[0] for p in pairs]} -> "
                                     f"{[p[1] for p in pairs]}: {what}", k))

    n0 = len(self.findings)
    any_open = any(e is not None and e.kind == "open" for _, _, e in pairs)
    if "C01" in self.checks:
        self.evals += 1
        for clause, what in observe.assoc_witnesses(self.pool)[:1]:
            viol(clause, what)
    if "C02" in self.checks and n0 == len(self.findings):
        self.evals += 1
        for clause, what in observe.membership_witnesses(self.pool)[:1]:
            viol(clause, what)
        if n0 == len(self.findings) and not any_open:
            ms = self.model.snapshot()
            for name, val in post.items():
                if val[0] == "U" and name in ms and val[3] != ms[name][3]:
                    viol("member_order", f"{name}.vertices = {list(val[3])}, model gives {list(ms[name][3])}")
                    break
                if val[0] in ("U", "V") and name in ms and val[2] != ms[name][2]:
                    viol("universes_list", f"{name}.universes = {list(val[2])}, model has {list(ms[name][2])}")
                    break
    if "C19" in self.checks and n0 == len(self.findings):
        self.evals += 1
        for clause, what in observe.laws_witnesses(self.pool)[:1]:
            viol(clause, what)
        for op, real, _ in pairs:
            if op[0] in ("set_laws", "set_applies", "mku") and real[0] == "exc" and n0 == len(self.findings):
                viol(f"assignment_raised:{real[1]}", f"{op} raised")
        if n0 == len(self.findings) and not any_open:
            ms = self.model.snapshot()
            bad = [n for n, v in post.items() if v[0] == "W" and ms.get(n) != v] + [
                n for n, v in post.items() if v[0] == "U" and n in ms and ms[n][4] != v[4]]
            if bad:
                viol("assignment_no_effect_or_frame", "after the burst the bindings differ from the model: " + _diff(ms, post))
    if "C03" in self.checks and n0 == len(self.findings):
        self.evals += 1
        if any_open:
            return False
        for op, real, exp in pairs:
            if exp.kind == "raise" and real[0] != "exc":
                viol("should_raise", f"{op} returned normally")
                break
            if exp.kind != "raise" and real[0] == "exc":
                viol(f"unexpected_exception:{real[1]}", f"{op} is inside its documented domain")
                break
        if n0 == len(self.findings):
            ms = self.model.snapshot()
            if post != ms:
                viol("effect", "observable graph differs from the reference model: " + _diff(ms, post))
    return n0 == len(self.findings)


Engine.step_burst = _burst


def _diff(a, b):
    out = []
    for n in sorted(set(a) | set(b)):
        if a.get(n) != b.get(n):
            out.append(f"{n}: expected {a.get(n)} observed {b.get(n)}")
    return "; ".join(out[:6])


def replay(ops, checks, strict=False, counters=None) -> Engine:
    Vertex.NEIGHBOR_CACHING = False
    eng = Engine(checks, strict, counters)
    for op in ops:
        if not eng.step(op):
            break
    return eng


def generate(rng, profile, checks, nops, strict=False, counters=None, weights=None, nv=3) -> Engine:
    Vertex.NEIGHBOR_CACHING = False
    eng = Engine(checks, strict, counters)
    g = gen.Gen(rng, profile, weights)
    if rng.random() < 0.3:
        eng.step(["cache", True])
        if counters is not None:
            counters["histories_with_neighbor_caching_on"] += 1
    for op in g.initial(eng.pool, nv=nv):
        eng.step(op)
    if (profile in ("C02", "C19", "C03") and rng.random() < 0.8) or (profile == "C01" and rng.random() < 0.5):
        eng.step(["mku", g.fresh("U"), [], None])
    for _ in range(nops):
        if rng.random() < 0.08:
            # an unobserved burst: a constructor immediately followed by ops on the new object, chosen blindly
            burst = g.blind_burst(eng.pool)
            if burst and not eng.step(["burst", burst]):
                break
            continue
        op = g.next_op(eng.pool)
        if op is None:
            break
        if not eng.step(op):
            break
    return eng


def shrink(ops, checks, strict, mech):
    def fails(sub):
        e = replay(sub, checks, strict)
        return any(f.mech == mech for f in e.findings)

    small = ddmin(list(ops), fails)
    return small if fails(small) else list(ops)


def report(ctx, eng: Engine, checks, strict):
    """Turn an engine's findings into ctx violations (shrunk)."""
    for f in eng.findings[:1]:
        ops = eng.executed
        if ctx.should_shrink(f.mech):
            ops = shrink(eng.executed, checks, strict, f.mech)
            e2 = replay(ops, checks, strict)
            f2 = next((x for x in e2.findings if x.mech == f.mech), f)
            what = f2.what
        else:
            what = f.what
        ctx.violation(f.mech, what + f"; history={ops}", {"ops": ops, "strict": strict})


# ---------------------------------------------------------------------------
# bounded-exhaustive prelude
# ---------------------------------------------------------------------------

BASE_STATES = {
    "plain_edge": [["mkv", "V0", "Vertex", [], []], ["mkv", "V1", "VSub", [], []], ["mkv", "V2", "Vertex", [], []],
                   ["mke", "E0", "DirectedEdge", "V0", "V1"]],
    "self_loop": [["mkv", "V0", "Vertex", [], []], ["mkv", "V1", "Vertex", [], []], ["mkv", "V2", "Vertex", [], []],
                  ["mke", "E0", "UnDirectedEdge", "V0", "V0"]],
    "half_edge": [["mkv", "V0", "Vertex", [], []], ["mkv", "V1", "Vertex", [], []], ["mkv", "V2", "Vertex", [], []],
                  ["mke", "E0", "DirectedEdge", "V0", None]],
    "parallel": [["mkv", "V0", "Vertex", [], []], ["mkv", "V1", "Vertex", [], []], ["mkv", "V2", "Vertex", [], []],
                 ["mke", "E0", "DirectedEdge", "V0", "V1"], ["mke", "E1", "DirectedEdge", "V0", "V1"]],
    "antiparallel_mixed": [["mkv", "V0", "Vertex", [], []], ["mkv", "V1", "FalsyVertex", [], []],
                           ["mkv", "V2", "Vertex", [], []], ["mke", "E0", "DirectedEdge", "V0", "V1"],
                           ["mke", "E1", "USub", "V1", "V0"], ["mke", "E2", "OtherLink", "V0", "V2"]],
    "fan": [["mkv", "V0", "Vertex", [], []], ["mkv", "V1", "Vertex", [], []], ["mkv", "V2", "Vertex", [], []],
            ["mke", "E0", "DirectedEdge", "V0", "V1"], ["mke", "E1", "DirectedEdge", "V0", "V2"],
            ["mke", "E2", "UnDirectedEdge", "V2", "V0"]],
    "extra_vertex": [["mkv", "V0", "Vertex", [], []], ["mkv", "V1", "Vertex", [], []], ["mkv", "V2", "Vertex", [], []],
                     ["mke", "E0", "DirectedEdge", "V0", "V1"], ["v_add_link", "V2", "E0"]],
    "multi_listing": [["mkv", "V0", "Vertex", [], []], ["mkv", "V1", "Vertex", [], []], ["mkv", "V2", "Vertex", [], []],
                      ["mkl", "M0", ["V0", "V1", "V0"]], ["mke", "E0", "DirectedEdge", "V1", "V2"]],
    "lost_end": [["mkv", "V0", "Vertex", [], []], ["mkv", "V1", "Vertex", [], []], ["mkv", "V2", "Vertex", [], []],
                 ["mke", "E0", "DirectedEdge", "V0", "V1"], ["v_rm_link", "V1", "E0"]],
}

BASE_MEMB = {
    "one_universe": [["mkv", "V0", "Vertex", [], []], ["mkv", "V1", "VSub", [], []], ["mku", "U0", ["V0"], None]],
    "nested": [["mkv", "V0", "Vertex", [], []], ["mkv", "V1", "Vertex", [], []], ["mku", "U0", ["V0"], None],
               ["mku", "U1", ["U0", "V1"], None]],
    "self_member": [["mkv", "V0", "Vertex", [], []], ["mku", "U0", ["V0"], None], ["u_add", "U0", "U0"],
                    ["mku", "U1", [], None]],
}

BASE_LAWS = {
    "two_unis_two_laws": [["mku", "U0", [], None], ["mku", "U1", [], None], ["mkw", "W0", 0], ["mkw", "W1", 1]],
    "detached": [["mku", "U0", [], None], ["mku", "U1", [], None], ["mkw", "W0", 3], ["set_laws", "U0", None],
                 ["set_laws", "U1", "W0"]],
    # a universe that contains another universe (and itself) while laws move around
    "nested": [["mku", "U0", [], None], ["mku", "U1", ["U0"], None], ["u_add", "U1", "U1"], ["mkw", "W0", 0], ["mkw", "W1", 2]],
    # a law set that is FILED under a universe it does not govern (BaseObject.add_to_universe), and a free one filed too
    "filed": [["mku", "U0", [], None], ["mku", "U1", [], None], ["mkw", "W0", 0], ["set_laws", "U0", "W0"],
              ["w_file", "W0", "U1"], ["mkw", "W1", 1], ["w_file", "W1", "U0"]],
}


def enumerate_ops(pool, profile, constructors=True, fresh="X"):
    """Every op of the profile with every argument choice over the pool."""
    g = gen.Gen(random.Random(0), "C01")
    vs = g.vertices(pool)
    es = g.edges(pool)
    ls = g.links(pool)
    us = g.universes(pool)
    ws = g.laws(pool)
    out = []
    if profile in ("C01", "C03"):
        for e in es:
            for x in vs + [None]:
                out.append(["setv1", e, x])
                out.append(["setv2", e, x])
        for l in ls:
            out.append(["l_unlink_from", l, None])
            out.append(["l_add_vertex", l, None])
        for v in vs:
            for l in ls:
                out.append(["v_add_link", v, l])
                out.append(["v_rm_link", v, l])
                out.append(["l_add_vertex", l, v])
                out.append(["l_unlink_from", l, v])
        for a in vs:
            for b in vs:
                for destroy in (True, False):
                    out.append(["unlink", a, b, destroy])
                if constructors:
                    for dd in (True, False):
                        out.append(["link", "from_to", a, "OtherLink", b, dd, "E9" + fresh])
                        out.append(["link", "directed", a, "DirectedEdge", b, dd, "E9" + fresh])
                    out.append(["link", "undirected", a, "UnDirectedEdge", b, True, "E9" + fresh])
        if constructors:
            for a in vs + [None]:
                for b in vs + [None]:
                    out.append(["mke", "E8" + fresh, "DSub", a, b])
            out.append(["mke", "E8" + fresh, "DirectedEdge", vs[0], "!obj"])
            out.append(["mke", "E8" + fresh, "UnDirectedEdge", "!int", vs[0]])
            for l in ls:
                out.append(["mkv", "V8" + fresh, "Vertex", [l], []])
                out.append(["mkv", "V8" + fresh, "Vertex", [l, l], []])
                out.append(["mkv", "V8" + fresh, "Vertex", [l], [], "gen"])
    if profile in ("C02", "C03"):
        for u in us:
            for v in vs:
                out.append(["u_add", u, v])
                out.append(["u_rm", u, v])
                out.append(["v_add_uni", v, u])
                out.append(["v_rm_uni", v, u])
        if constructors and us:
            out.append(["mkv", "V7" + fresh, "Vertex", [], [us[0], us[0]]])
            out.append(["mkv", "V7" + fresh, "VSub", [], list(us)])
            for ck in ("tuple", "gen", "iter"):
                out.append(["mkv", "V7" + fresh, "Vertex", [], list(us) + [us[0]], ck])
                out.append(["mku", "U7" + fresh, vs[:2] + vs[:1], None, ck])
            out.append(["mku", "U7" + fresh, vs[:2] + vs[:1], None])
            out.append(["mku", "U7" + fresh, list(us), None])
    if profile in ("C19", "C03"):
        for u in us:
            for w in ws + [None]:
                out.append(["set_laws", u, w])
        for w in ws:
            for u in us + [None]:
                out.append(["set_applies", w, u])
        if constructors:
            for w in ws:
                out.append(["mku", "U6" + fresh, [], w])
            out.append(["mku", "U6" + fresh, [], None])
            out.append(["mkw", "W6" + fresh, 0])
    return out


def prelude(profile, depth):
    """Yields op lists: base + every sequence of `depth` enumerated ops."""
    bases = {}
    if profile in ("C01", "C03"):
        bases.update(BASE_STATES)
    if profile in ("C02", "C03"):
        bases.update(BASE_MEMB)
    if profile in ("C19", "C03"):
        bases.update(BASE_LAWS)
    for bname, base in bases.items():
        e0 = replay(base, set())
        first = enumerate_ops(e0.pool, profile, constructors=True, fresh="a")
        for op1 in first:
            if depth == 1:
                yield bname, base + [op1]
                continue
            e1 = replay(base + [op1], set())
            second = enumerate_ops(e1.pool, profile, constructors=False, fresh="b")
            if depth == 2:
                yield bname, base + [op1]
                for op2 in second:
                    yield bname, base + [op1, op2]
            else:
                for op2 in second:
                    e2 = replay(base + [op1, op2], set())
                    for op3 in enumerate_ops(e2.pool, profile, constructors=False, fresh="c"):
                        yield bname, base + [op1, op2, op3]
