"""
C10, script side: run AS A SCRIPT (so everything below lives in __main__, like a user's own program), builds a
graph over classes defined here, dumps it with nrpickler under the logical-step monitor and writes, per protocol,
the bytes together with the canonical form and query answers of the original.  The parent hands the bytes to a
fresh interpreter (egverif.worker10) whose __main__ knows none of these classes.
usage: python main10.py <out.json>
"""

import base64
import json
import sys

from egverif import common

common.assert_repo_under_test()

from edgegraph.output import nrpickler  # noqa: E402
from edgegraph.structure import DirectedEdge, UnDirectedEdge, Universe, Vertex  # noqa: E402

from egverif import canon, stepmon  # noqa: E402

SCALE = 3


def scaled(x):
    """A module-level function of the script, referring to a module-level constant of the script."""
    return x * SCALE


class City(Vertex):
    # methods refer to nothing but self / super() / builtins: a by-value function's globals are, by dill's own
    # rules, the __main__ of whoever loads it
    kind = "city"

    def __init__(self, name=None, **kw):
        super().__init__(**kw)
        self.name = name

    def egv_probe(self):
        return ["city", self.kind, self.name, super().__repr__() == object.__repr__(self)]


class Capital(City):
    def egv_probe(self):
        return ["capital"] + super().egv_probe()


class Road(DirectedEdge):
    def __init__(self, a=None, b=None, **kw):
        super().__init__(a, b, **kw)

    def egv_probe(self):
        return ["road", super().v2 is self.v2]


class Country(Universe):
    def __init__(self, **kw):
        super().__init__(**kw)

    def egv_probe(self):
        return ["country", len(self.vertices)]


class Plain(Vertex):
    pass


def build(n):
    vs = [(Capital if i % 3 == 0 else City if i % 3 == 1 else Plain)(attributes={"idx": i}) for i in range(n)]
    for i, v in enumerate(vs):
        if isinstance(v, City):
            v.name = f"c{i}"
    es = [(Road if i % 2 else UnDirectedEdge)(vs[i], vs[(i + 1) % n], attributes={"tag": i}) for i in range(n)]
    es.append(Road(vs[0], vs[0], attributes={"tag": n}))
    vs[0].fn = scaled
    vs[-1].fn = scaled
    return vs + es + [Country(vertices=vs[:-1])]


def main():
    monitored = stepmon.install()
    outs = []
    for proto in (0, 1, 2, 3, 4, 5):
        for n in (4, 1500 if proto == 4 else 7):
            objs = build(n)
            root = objs[-1] if proto % 2 else objs[0]
            form, objs0 = canon.canonical(root)
            rec = {"proto": proto, "n": n, "monitored": monitored, "form": form, "battery": canon.battery(objs0)}
            try:
                rec["pickle_b64"] = base64.b64encode(nrpickler.dumps(root, protocol=proto)).decode()
            except Exception as exc:  # noqa: BLE001
                rec["error"] = type(exc).__name__
            outs.append(rec)
    rec_stats = dict(stepmon.STATS)
    with open(sys.argv[1], "w") as fp:
        json.dump({"cases": outs, "stepmon": rec_stats}, fp)


if __name__ == "__main__":
    main()
