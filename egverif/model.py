"""
E3: plain-data reference model of the structure + explicit-builder API,
written from the property statements and the docstrings.  Replayed in lock
step with the real calls; compared through snapshot().

apply(op) -> Expect:
   kind "ok"     : must return; value = expected canonical return (or any_of)
   kind "raise"  : must raise (exc = required type name or None for any) and
                   leave everything unchanged
   kind "open"   : the documentation leaves the effect open -> not compared
                   (the model applies the natural effect so it can go on)
   kind "skip"   : dangling reference, nothing happens
"""

from __future__ import annotations

from egverif import zoo

TWO_ENDED = set(zoo.EDGE_CLASSES)


class Expect:
    def __init__(self, kind, value=None, any_of=None, exc=None):
        self.kind, self.value, self.any_of, self.exc = kind, value, any_of, exc

    def __repr__(self):
        return f"Expect({self.kind}, value={self.value}, any_of={self.any_of}, exc={self.exc})"


OK_NONE = Expect("ok", None)
SKIP = Expect("skip")


class Model:
    def __init__(self):
        self.V = {}  # vertex-like name -> {"links": [...], "unis": [...]}
        self.U = {}  # universe name -> {"verts": [...], "laws": name|None}
        self.L = {}  # link name -> {"cls": cname, "verts": [...]}
        self.W = {}  # laws name -> {"applies": name|None}

    # ---- helpers ----------------------------------------------------------
    def has(self, *names):
        return all(n is None or n in self.V or n in self.L or n in self.W for n in names)

    def exists(self, name):
        return name in self.V or name in self.L or name in self.W

    def snapshot(self):
        snap = {}
        for n, v in self.V.items():
            if n in self.U:
                u = self.U[n]
                snap[n] = ("U", tuple(v["links"]), tuple(v["unis"]), tuple(u["verts"]), u["laws"])
            else:
                snap[n] = ("V", tuple(v["links"]), tuple(v["unis"]))
        for n, l in self.L.items():
            snap[n] = ("L", tuple(l["verts"]))
        for n, w in self.W.items():
            snap[n] = ("W", w["applies"])
        return snap

    def is_plain_edge(self, l):
        return self.L[l]["cls"] in TWO_ENDED and len(self.L[l]["verts"]) == 2

    def joins(self, l, a, b):
        x, y = self.L[l]["verts"]
        if a == b:
            return x == a and y == a
        return (x == a and y == b) or (x == b and y == a)

    def _attach(self, v, l):
        if v is not None and l not in self.V[v]["links"]:
            self.V[v]["links"].append(l)

    # ---- ops --------------------------------------------------------------
    def apply(self, op) -> Expect:
        return getattr(self, "_" + op[0])(op)

    def _mkv(self, op):
        _, name, cname, links, unis = op[:5]
        if not all(l in self.L for l in links) or not all(u in self.U for u in unis) or self.exists(name):
            return SKIP
        self.V[name] = {"links": [], "unis": []}
        for l in links:
            if l not in self.V[name]["links"]:
                self.V[name]["links"].append(l)
                self.L[l]["verts"].append(name)
        for u in dict.fromkeys(unis):
            self.V[name]["unis"].append(u)
            if name not in self.U[u]["verts"]:
                self.U[u]["verts"].append(name)
        return Expect("ok", name)

    def _mku(self, op):
        _, name, verts, laws = op[:4]
        if not all(v in self.V for v in verts) or (laws is not None and laws not in self.W) or self.exists(name):
            return SKIP
        self.V[name] = {"links": [], "unis": []}
        self.U[name] = {"verts": [], "laws": None}
        if laws is None:
            w = "W_" + name
            self.W[w] = {"applies": name}
            self.U[name]["laws"] = w
        else:
            prev = self.W[laws]["applies"]
            if prev is not None and prev != name:
                self.U[prev]["laws"] = None
            self.W[laws]["applies"] = name
            self.U[name]["laws"] = laws
        for v in verts:
            if v not in self.U[name]["verts"]:
                self.U[name]["verts"].append(v)
                if name not in self.V[v]["unis"]:
                    self.V[v]["unis"].append(name)
        return Expect("ok", name)

    def _mke(self, op):
        _, name, cname, a, b = op
        if self.exists(name):
            return SKIP
        for x in (a, b):
            if isinstance(x, str) and x.startswith("!"):
                if x == "!link" and not any(n.startswith("E") for n in self.L):
                    return SKIP
            elif x is not None and x not in self.V:
                return SKIP
        if any(isinstance(x, str) and x.startswith("!") for x in (a, b)):
            return Expect("raise", exc="TypeError")
        self.L[name] = {"cls": cname, "verts": [a, b]}
        self._attach(a, name)
        self._attach(b, name)
        return Expect("ok", name)

    def _mkl(self, op):
        _, name, verts = op[:3]
        if not all(v in self.V for v in verts) or self.exists(name):
            return SKIP
        self.L[name] = {"cls": "MultiLink", "verts": list(verts)}
        for v in verts:
            self._attach(v, name)
        return Expect("ok", name)

    def _mkw(self, op):
        _, name, ki = op
        if self.exists(name):
            return SKIP
        self.W[name] = {"applies": None}
        return Expect("ok", name)

    def _setv(self, op, k):
        _, e, x = op
        if e not in self.L or (x is not None and x not in self.V):
            return SKIP
        l = self.L[e]
        if l["cls"] not in TWO_ENDED:
            return Expect("open")
        if len(l["verts"]) != 2:
            # degenerate edge: natural effect is undefined; leave the model alone
            return Expect("open")
        old = l["verts"][k]
        l["verts"][k] = x
        if old is not None and old not in l["verts"] and e in self.V[old]["links"]:
            self.V[old]["links"].remove(e)
        self._attach(x, e)
        return OK_NONE

    def _setv1(self, op):
        return self._setv(op, 0)

    def _setv2(self, op):
        return self._setv(op, 1)

    def _v_add_link(self, op):
        _, v, l = op
        if v not in self.V or l not in self.L:
            return SKIP
        if l in self.V[v]["links"]:
            return OK_NONE
        self.V[v]["links"].append(l)
        if v not in self.L[l]["verts"]:
            self.L[l]["verts"].append(v)
        return OK_NONE

    def _l_add_vertex(self, op):
        _, l, v = op
        if v is None:
            if l not in self.L:
                return SKIP
            self.L[l]["verts"].append(None)
            return Expect("open")
        if v not in self.V or l not in self.L:
            return SKIP
        already = v in self.L[l]["verts"]
        self.L[l]["verts"].append(v)
        self._attach(v, l)
        return Expect("open") if already else OK_NONE

    def _detach(self, v, l):
        n = self.L[l]["verts"].count(v)
        if n == 0 and l not in self.V[v]["links"]:
            return OK_NONE
        self.L[l]["verts"] = [x for x in self.L[l]["verts"] if x != v]
        if l in self.V[v]["links"]:
            self.V[v]["links"].remove(l)
        return Expect("open") if n > 1 else OK_NONE

    def _v_rm_link(self, op):
        _, v, l = op
        if v not in self.V or l not in self.L:
            return SKIP
        return self._detach(v, l)

    def _l_unlink_from(self, op):
        _, l, v = op
        if v is None:
            if l not in self.L:
                return SKIP
            # removing a None end: documented? no -> open, natural effect: drop one None
            if None in self.L[l]["verts"]:
                self.L[l]["verts"].remove(None)
            return Expect("open")
        if v not in self.V or l not in self.L:
            return SKIP
        return self._detach(v, l)

    def _all_plain_at(self, a):
        return all(self.is_plain_edge(l) for l in self.V[a]["links"])

    def first_joining_before_awkward(self, a, b):
        for l in self.V[a]["links"]:
            if not self.is_plain_edge(l):
                return None
            if self.joins(l, a, b):
                return l
        return None

    def _link(self, op):
        _, fn, a, cname, b, dontdup, name = op
        if a not in self.V or b not in self.V or self.exists(name):
            return SKIP
        cname = {"directed": "DirectedEdge", "undirected": "UnDirectedEdge"}.get(fn, cname)
        if dontdup:
            # the scan goes through a's links in order and stops at the first joining link: what lies BEHIND it
            # (an n-ended link, an edge that lost an end) is never looked at
            first = self.first_joining_before_awkward(a, b)
            if first is not None and not self._all_plain_at(a):
                return Expect("ok", first)
            if not self._all_plain_at(a):
                # other() on a degenerate / n-ended link: outside the documented domain
                js = [l for l in self.V[a]["links"] if self.is_plain_edge(l) and self.joins(l, a, b)]
                if not js:
                    self.L[name] = {"cls": cname, "verts": [a, b]}
                    self._attach(a, name)
                    self._attach(b, name)
                return Expect("open")
            js = [l for l in self.V[a]["links"] if self.joins(l, a, b)]
            if js:
                return Expect("ok", any_of=js)
        self.L[name] = {"cls": cname, "verts": [a, b]}
        self._attach(a, name)
        self._attach(b, name)
        return Expect("ok", name)

    def _other(self, op):
        _, e, v = op
        if e not in self.L or (v is not None and v not in self.V) or self.L[e]["cls"] not in TWO_ENDED:
            return SKIP
        ends = self.L[e]["verts"]
        if len(ends) != 2:
            return Expect("open")
        # "figures out whether it's v1 or v2 of this edge, and returns v2 or v1 respectively"; an open end is None
        if v == ends[0]:
            return Expect("ok", ends[1])
        if v == ends[1]:
            return Expect("ok", ends[0])
        return Expect("ok", None)

    def _unlink(self, op):
        _, a, b, destroy = op
        if a not in self.V or b not in self.V:
            return SKIP
        plain = self._all_plain_at(a)
        js = [l for l in self.V[a]["links"] if self.is_plain_edge(l) and self.joins(l, a, b)]
        for l in js:
            self.L[l]["verts"] = []
            self.V[a]["links"].remove(l)
            if b != a:
                self.V[b]["links"].remove(l)
        if not plain:
            return Expect("open")
        return Expect("ok", None if destroy else {"set": sorted(js)})

    def _u_add(self, op):
        _, u, v = op
        if u not in self.U or v not in self.V:
            return SKIP
        if v not in self.U[u]["verts"]:
            self.U[u]["verts"].append(v)
            if u not in self.V[v]["unis"]:
                self.V[v]["unis"].append(u)
        return OK_NONE

    def _v_add_uni(self, op):
        _, v, u = op
        if u not in self.U or v not in self.V:
            return SKIP
        if u not in self.V[v]["unis"]:
            self.V[v]["unis"].append(u)
            if v not in self.U[u]["verts"]:
                self.U[u]["verts"].append(v)
        return OK_NONE

    def _u_rm(self, op):
        _, u, v = op
        if u not in self.U or v not in self.V:
            return SKIP
        if v not in self.U[u]["verts"]:
            return Expect("raise")
        self.U[u]["verts"].remove(v)
        self.V[v]["unis"].remove(u)
        return OK_NONE

    def _v_rm_uni(self, op):
        _, v, u = op
        if u not in self.U or v not in self.V:
            return SKIP
        if u not in self.V[v]["unis"]:
            return Expect("raise")
        self.V[v]["unis"].remove(u)
        self.U[u]["verts"].remove(v)
        return OK_NONE

    def _bind(self, u, w):
        """u.laws = w with symmetric detach-then-attach."""
        old = self.U[u]["laws"]
        if old == w:
            return
        if old is not None:
            self.W[old]["applies"] = None
        self.U[u]["laws"] = w
        if w is not None:
            prev = self.W[w]["applies"]
            if prev is not None and prev != u:
                self.U[prev]["laws"] = None
            self.W[w]["applies"] = u

    def _set_laws(self, op):
        _, u, w = op
        if u not in self.U or (w is not None and w not in self.W):
            return SKIP
        self._bind(u, w)
        return OK_NONE

    def _w_file(self, op):
        _, w, u = op
        if w not in self.W or u not in self.U:
            return SKIP
        return OK_NONE  # where a law set is filed says nothing about what it governs

    def _set_applies(self, op):
        _, w, u = op
        if w not in self.W or (u is not None and u not in self.U):
            return SKIP
        old = self.W[w]["applies"]
        if old == u:
            return OK_NONE
        if u is None:
            self.U[old]["laws"] = None
            self.W[w]["applies"] = None
        else:
            self._bind(u, w)
        return OK_NONE
