"""
Entry point:  python -m egverif.cli <ID> [--tier quick|thorough] [--seed N]
                                         [--replay FILE] [--shard k/N --state-out F]
"""

from __future__ import annotations

import argparse
import importlib
import json
import os
import random
import signal
import subprocess
import sys
import tempfile
import time

from egverif import common, reach

LEVELS = {"C13": "fault_enumeration"}
NSHARDS = 16
# generous wall-clock watchdogs (seconds); firing = inconclusive, never a verdict
WATCHDOG = {"quick": 900, "thorough": 3600}


def _watchdog(signum, frame):  # pragma: no cover
    print("INCONCLUSIVE reason=wall-clock watchdog fired")
    os._exit(common.EXIT_INCONCLUSIVE)


def main(argv=None):
    ap = argparse.ArgumentParser()
    ap.add_argument("prop")
    ap.add_argument("--tier", default=os.environ.get("VERIF_TIER") or "quick")
    ap.add_argument("--seed", type=int, default=None)
    ap.add_argument("--replay", default=None)
    ap.add_argument("--shard", default=None)
    ap.add_argument("--state-out", default=None)
    ap.add_argument("--no-shards", action="store_true")
    ap.add_argument("--scale", type=float, default=1.0)
    args = ap.parse_args(argv)
    if args.seed is None:
        try:
            args.seed = int(os.environ.get("VERIF_SEED", "0") or 0)
        except ValueError:
            args.seed = 0
    if args.tier not in ("quick", "thorough"):
        args.tier = "quick"

    common.assert_repo_under_test()
    # Part of the environment a library runs in: applications and test suites escalate warnings to errors
    # (python -W error, pytest filterwarnings = error).  Whatever the library itself warns about - in its own
    # frames or, with stacklevel=2, in its caller's - therefore surfaces as the exception it would be there.
    import warnings

    warnings.filterwarnings("error", module=r"(edgegraph|egverif)(\.|$)")
    # ... and so is the logging configuration of the host application: with DEBUG enabled for the library's
    # loggers, every `if LOG.isEnabledFor(DEBUG):` block runs and every record is actually formatted
    import logging

    class _Format(logging.Handler):
        def emit(self, record):
            record.getMessage()  # a formatting error propagates to the caller like any other error of the library

    _lib = logging.getLogger("edgegraph")
    _lib.setLevel(logging.DEBUG)
    _lib.addHandler(_Format())
    _lib.propagate = False
    logging.raiseExceptions = True
    prop = args.prop.upper()
    mod = importlib.import_module(f"egverif.props.{prop.lower()}")
    ctx = common.Ctx(prop, args.tier, args.seed, LEVELS.get(prop, "exploration"))
    ctx.scale = args.scale

    signal.signal(signal.SIGALRM, _watchdog)
    signal.alarm(WATCHDOG[args.tier])

    if args.replay:
        with open(args.replay) as fp:
            rec = json.load(fp)
        if isinstance(rec.get("case"), dict) and rec["case"].get("python_O") and not sys.flags.optimize:
            # the witness was observed under `python -O`: replay it the same way
            os.execv(sys.executable, [sys.executable, "-O", "-B", "-m", "egverif.cli"] + (argv if argv is not None else sys.argv[1:]))
        ctx.replay_mode = True
        mod.replay(ctx, rec["case"])
        code = ctx.finish("replay of one recorded case")
        if code == 0:
            print("replay: the recorded case no longer violates the property")
        return code

    if args.shard:
        k, n = (int(x) for x in args.shard.split("/"))
        ctx.shard, ctx.nshards = k, n
        try:
            with reach.Reach(prop) as rc:
                mod.run(ctx)
            ctx.reach = rc.summary()
        except Exception:  # noqa: BLE001
            import traceback

            traceback.print_exc()
            return common.EXIT_INCONCLUSIVE
        if sys.flags.optimize:
            ctx.counters["evaluations_under_python_O"] = ctx.evaluations
        with open(args.state_out, "w") as fp:
            json.dump(ctx.dump_state(), fp, default=repr)
        return 0

    sharded = args.tier == "thorough" and not args.no_shards and getattr(mod, "SHARDED", True)
    try:
        if sharded:
            run_sharded(ctx, prop, args)
        else:
            ctx.shard, ctx.nshards = 0, 1
            with reach.Reach(prop) as rc:
                mod.run(ctx)
            ctx.reach = rc.summary()
            if not sys.flags.optimize and os.environ.get("EGVERIF_OPT_PASS", "1") != "0":
                run_optimized_companion(ctx, prop, args)
    except Exception:  # noqa: BLE001 - a crash of the harness is never a verdict
        import traceback

        traceback.print_exc()
        print(f"INCONCLUSIVE property={prop} reason=harness error (traceback on stderr)")
        return common.EXIT_INCONCLUSIVE
    return ctx.finish(mod.RULE, mod.floors(ctx))


def run_optimized_companion(ctx, prop, args):
    """
    The interpreter is part of the environment: `python -O` / PYTHONOPTIMIZE strips assert statements and
    `if __debug__:` blocks, in the library and in what it calls.  A reduced share of the same workload (a third
    of the enumerated part, 30% of the random part) is therefore repeated in a child running with -O and merged.
    """
    tmpdir = tempfile.mkdtemp(prefix="egverif_")
    out = os.path.join(tmpdir, "opt.json")
    log = os.path.join(tmpdir, "opt.log")
    try:
        with open(log, "w") as lf:
            try:
                p = subprocess.run([sys.executable, "-O", "-B", "-m", "egverif.cli", prop, "--tier", args.tier,
                                    "--seed", str(args.seed), "--shard", "1/3", "--scale", "0.3", "--state-out", out],
                                   stdout=lf, stderr=subprocess.STDOUT, timeout=WATCHDOG[args.tier] // 2,
                                   # ... and with another string-hash seed than the main run's 0 (set / dict order of
                                   # strings is part of the interpreter's configuration too)
                                   env=dict(os.environ, PYTHONHASHSEED=str(1 + args.seed % 1000)))
                rc = p.returncode
            except subprocess.TimeoutExpired:
                rc = -1
        if rc != 0 or not os.path.exists(out):
            ctx.counters["__shards_failed"] = ctx.counters.get("__shards_failed", 0) + 1
            ctx.extra["python_O_companion"] = "failed"
            try:
                sys.stderr.write(open(log).read()[-2000:])
            except OSError:
                pass
            return
        with open(out) as fp:
            st = json.load(fp)
        st["reach"] = {}
        ctx.merge_state(st)
        ctx.extra["python_O_companion"] = {"share": "shard 1/3 of the enumerated part, 30% of the random part",
                                           "evaluations": st["evaluations"]}
    finally:
        for f in os.listdir(tmpdir):
            os.unlink(os.path.join(tmpdir, f))
        os.rmdir(tmpdir)


def run_sharded(ctx, prop, args):
    tmpdir = tempfile.mkdtemp(prefix="egverif_")
    procs = []
    env = dict(os.environ)
    for k in range(NSHARDS):
        out = os.path.join(tmpdir, f"s{k}.json")
        log = open(os.path.join(tmpdir, f"s{k}.log"), "w")
        # every fourth shard runs under `python -O` (assert statements / __debug__ blocks stripped)
        p = subprocess.Popen(
            [sys.executable] + (["-O"] if k % 4 == 3 else []) + ["-B", "-m", "egverif.cli", prop, "--tier", "thorough",
             "--seed", str(args.seed), "--shard", f"{k}/{NSHARDS}", "--state-out", out],
            env=env, stdout=log, stderr=subprocess.STDOUT,
        )
        procs.append((k, p, out, log))
    deadline = time.time() + WATCHDOG["thorough"] - 60
    dead = []
    for k, p, out, log in procs:
        try:
            p.wait(timeout=max(1, deadline - time.time()))
        except subprocess.TimeoutExpired:
            p.kill()
            dead.append(k)
        log.close()
        if p.returncode != 0 or not os.path.exists(out):
            dead.append(k)
            try:
                sys.stderr.write(open(log.name).read()[-2000:])
            except OSError:
                pass
            continue
        with open(out) as fp:
            ctx.merge_state(json.load(fp))
    ctx.extra["shards"] = NSHARDS
    ctx.extra["shards_failed"] = sorted(set(dead))
    if dead:
        ctx.counters["__shards_failed"] = len(set(dead))
    for f in os.listdir(tmpdir):
        os.unlink(os.path.join(tmpdir, f))
    os.rmdir(tmpdir)


if __name__ == "__main__":
    sys.exit(main())
