"""
E4c: canonical form of an object graph reachable from a root (C10).

Objects are numbered by first visit in a deterministic walk, so two graphs have
the same canonical form iff they are isomorphic including sharing, class
qualified names, uids, public attributes and every ordered relation.
"""

from __future__ import annotations

import functools
import types

from edgegraph.structure import Link, Universe, Vertex
from edgegraph.structure.base import BaseObject
from edgegraph.structure.universe import UniverseLaws

RULE_ATTRS = ("mixed_links", "cycles", "multipath", "multiverse")


def _slot_names(c):
    s = c.__dict__.get("__slots__", ())
    if isinstance(s, str):
        s = (s,)
    return [n for n in s if n not in ("__dict__", "__weakref__")]


def _is_node(o):
    return isinstance(o, BaseObject)


def canonical(root):
    """
    Returns (form, objects): form is a JSON-able list of records, objects the
    graph objects in numbering order.  `root` may be a graph object or a
    list / tuple / dict of graph objects.
    """
    number = {}
    objs = []
    pending = []
    containers = {}  # id -> number: sharing of attribute containers is part of the form
    keep = []  # keeps visited containers alive so ids stay unique during the walk

    def ref(o):
        if o is None:
            return None
        if not _is_node(o):
            return ["foreign", type(o).__qualname__]
        i = number.get(id(o))
        if i is None:
            i = len(objs)
            number[id(o)] = i
            objs.append(o)
            pending.append(o)
        return i

    def val(v, depth=0):
        if _is_node(v):
            return ["ref", ref(v)]
        if isinstance(v, (str, bytes, bytearray)) and len(v) > 200:
            import hashlib

            data = v.encode("utf-8", "surrogatepass") if isinstance(v, str) else bytes(v)
            return [type(v).__name__, len(v), hashlib.sha1(data).hexdigest()]
        if isinstance(v, (str, int, float, bytes)) and type(v) not in (str, int, float, bool, bytes):
            # an instance of a str / int / float SUBCLASS (an enum member, a tagged string): equal to the plain value
            # but a different kind of object - the class is part of the form
            base = str.__str__(v) if isinstance(v, str) else int(v) if isinstance(v, int) else float(v) if isinstance(v, float) else bytes(v)
            return ["instance_of", type(v).__module__ + "." + type(v).__qualname__, val(base, depth + 1)]
        if isinstance(v, (bytes, bytearray)):
            return [type(v).__name__, list(v)]
        if v is None or isinstance(v, (bool, int, str)):
            return v
        if isinstance(v, float):
            return ["float", repr(v)]
        if depth > 6:
            return ["deep"]
        if isinstance(v, (list, tuple, dict, set, frozenset)) and not (isinstance(v, (tuple, frozenset)) and not v):
            k = containers.get(id(v))
            if k is not None:
                return ["shared_container", k]
            containers[id(v)] = len(containers)
            keep.append(v)
        if isinstance(v, (list, tuple)):
            return [type(v).__name__, [val(x, depth + 1) for x in v]]
        if isinstance(v, dict):
            return ["dict", [[val(k, depth + 1), val(x, depth + 1)] for k, x in v.items()]]
        if isinstance(v, (set, frozenset)):
            return [type(v).__name__, sorted(repr(val(x, depth + 1)) for x in v)]
        if isinstance(v, type):
            return ["class", v.__module__ + "." + v.__qualname__]
        if isinstance(v, types.MethodType):
            k = containers.get(id(v))
            if k is not None:
                return ["shared_container", k]
            containers[id(v)] = len(containers)
            keep.append(v)
            return ["method", v.__func__.__qualname__, val(v.__self__, depth + 1)]
        if isinstance(v, types.FunctionType):
            # a function is what it computes from: its code's name and the objects its closure refers to
            k = containers.get(id(v))
            if k is not None:
                return ["shared_container", k]
            containers[id(v)] = len(containers)
            keep.append(v)
            cells = []
            for c in v.__closure__ or ():
                try:
                    cells.append(val(c.cell_contents, depth + 1))
                except ValueError:
                    cells.append(["empty_cell"])
            return ["function", v.__qualname__, cells, val(v.__defaults__, depth + 1)]
        if isinstance(v, functools.partial):
            k = containers.get(id(v))
            if k is not None:
                return ["shared_container", k]
            containers[id(v)] = len(containers)
            keep.append(v)
            return ["partial", getattr(v.func, "__qualname__", "?"), [val(x, depth + 1) for x in v.args],
                    [[kk, val(x, depth + 1)] for kk, x in sorted(v.keywords.items())]]
        if hasattr(type(v), "egv_canon"):
            return ["custom", type(v).__qualname__, val(v.egv_canon(), depth + 1)]
        return ["other", type(v).__qualname__]

    if isinstance(root, dict):
        top = ["dict", [[val(k), val(v)] for k, v in root.items()]]
    else:
        top = val(root)
    records = {}
    while pending:
        o = pending.pop(0)
        rec = {"cls": type(o).__module__ + "." + type(o).__qualname__, "uid": o.uid}
        pub = {k: v for k, v in vars(o).items() if not k.startswith("_")}
        rec["attrs"] = [[k, val(pub[k])] for k in sorted(pub)]
        slots = [n for c in type(o).__mro__ for n in _slot_names(c) if hasattr(o, n)]
        if slots:
            rec["slots"] = [[n, val(getattr(o, n))] for n in sorted(slots)]
        probe = getattr(type(o), "egv_probe", None)
        if probe is not None:
            # behaviour of a class that was pickled by value (methods using super(), closures, class attributes)
            try:
                rec["probe"] = val(o.egv_probe())
            except Exception as exc:  # noqa: BLE001
                rec["probe"] = ["exc", type(exc).__name__]
        rec["universes"] = [ref(u) for u in o.universes]
        if isinstance(o, Vertex):
            rec["links"] = [ref(l) for l in o.links]
        if isinstance(o, Universe):
            rec["members"] = [ref(v) for v in o.vertices]
            rec["laws"] = ref(o.laws)
        if isinstance(o, Link):
            rec["ends"] = [ref(v) for v in o.vertices]
        if isinstance(o, UniverseLaws):
            rec["applies_to"] = ref(o.applies_to)
            rec["rules"] = [getattr(o, a) for a in RULE_ATTRS]
            wl = o.edge_whitelist
            rec["whitelist"] = None if wl is None else sorted(
                [k.__qualname__, sorted([a.__qualname__, b.__qualname__] for a, b in v.items())] for k, v in wl.items())
        records[number[id(o)]] = rec
    return {"top": top, "nodes": [records[i] for i in range(len(objs))]}, objs


def battery(objs):
    """Fixed battery of structural queries; answers expressed in canonical numbers."""
    from edgegraph.output import plaintext
    from edgegraph.traversal import breadthfirst, depthfirst, helpers

    from egverif import zoo

    num = {id(o): i for i, o in enumerate(objs)}

    def nm(x):
        if x is None:
            return None
        return num.get(id(x), "?")

    def out(fn, *a, **k):
        try:
            r = fn(*a, **k)
        except Exception as exc:  # noqa: BLE001
            return ["exc", type(exc).__name__]
        if isinstance(r, (list, tuple)):
            return [nm(x) for x in r]
        if isinstance(r, (set, frozenset)):
            return sorted(str(nm(x)) for x in r)
        if isinstance(r, str) or r is None:
            return r
        return nm(r)

    verts = [o for o in objs if isinstance(o, Vertex)]
    unis = [o for o in objs if isinstance(o, Universe)]
    res = []
    sample = verts if len(verts) <= 40 else verts[:20] + verts[-20:]
    for v in sample:
        res.append(out(helpers.neighbors, v, 0, 1, None))
        res.append(out(helpers.neighbors, v, 1, 1, zoo.f_tagged_edge))
        res.append(out(helpers.neighbors, v, 2, 0, zoo.f_even_vertex))
    for v in sample[:6]:
        for w in sample[:6]:
            res.append(out(helpers.find_links, v, w, False, 1, None))
    for v in sample[:4]:
        res.append(out(breadthfirst.bft, None, v, direction_sensitive=1, unknown_handling=1))
        res.append(out(depthfirst.dft_iterative, None, v, direction_sensitive=0, unknown_handling=1))
        if len(verts) < 400:
            res.append(out(depthfirst.dft_recursive, None, v, direction_sensitive=2, unknown_handling=1))
        res.append(out(breadthfirst.bfs, None, v, "idx", 2))
    for u in unis[:3]:
        if u.vertices:
            res.append(out(breadthfirst.bft, u, u.vertices[0], direction_sensitive=1, unknown_handling=1))
    return res
